package harness

// C01 — custody: bank(module, d) == TotalTokens(d) + Σ pending unbonding balances(d)
// + unsolicited donations(d), exactly, after every step.

import (
	"math/big"
)

type OracleC01 struct{}

func (OracleC01) Name() string           { return "C01" }
func (OracleC01) Before(x *Exec, op *Op) {}
func (OracleC01) End(x *Exec)            {}
func (o OracleC01) After(x *Exec, op *Op, res *Res) {
	s := x.Post()
	o.check(x, s, "after "+op.K)
	// per transition: whatever left custody in an alliance denom during a slash or a
	// block went to the fee collector (slash) or to users/fee collector (block).
	if op.K == KSlash || op.K == KSlashHook {
		pre := x.Pre()
		for _, d := range custodyDenoms(pre, s) {
			loss := new(big.Int).Sub(amountOf(pre.Module, d), amountOf(s.Module, d))
			gain := new(big.Int).Sub(amountOf(s.FeeColl, d), amountOf(pre.FeeColl, d))
			if loss.Cmp(gain) != 0 {
				x.Fail("C01", "custody-transfer", "slash moved %s %s out of custody but the fee collector gained %s", loss, d, gain)
			}
		}
	}
}

func (OracleC01) EndOfBlock(x *Exec) {
	OracleC01{}.check(x, x.EndSnap, "at end of block")
}

func custodyDenoms(ss ...*Snap) []string {
	m := map[string]bool{}
	for _, s := range ss {
		for d := range s.Assets {
			m[d] = true
		}
		for _, b := range s.Unb {
			for _, e := range b.Entries {
				m[e.Denom] = true
			}
		}
	}
	return sortedKeys(m)
}

func (OracleC01) check(x *Exec, s *Snap, when string) {
	pend := s.PendingUnbSum()
	for _, d := range custodyDenoms(s) {
		if x.PrecisionCollapsed(d) {
			x.KnownFinding("F-C04a")
			continue
		}
		want := new(big.Int)
		if a, ok := s.Assets[d]; ok {
			if a.TotalTokens.IsNegative() {
				// beyond the rounding budget of the withdrawals made (else classified above)
				x.Fail("C01", "custody", "%s: the recorded staked total of %s is %s: custody falls short of the pending unbondings it owes", when, d, a.TotalTokens)
			}
			want.Add(want, a.TotalTokens.BigInt())
		}
		if p := pend[d]; p != nil {
			want.Add(want, p)
		}
		if dn := x.L.Donated[d]; dn != nil {
			want.Add(want, dn)
		}
		have := amountOf(s.Module, d)
		if have.Cmp(want) != 0 {
			x.Fail("C01", "custody", "%s: custody of %s is %s but staked total + pending unbondings + donations = %s (diff %s)",
				when, d, have, want, new(big.Int).Sub(have, want))
		}
	}
	if len(s.Unb) > 0 {
		x.Label("c01:pending-unbonding")
	}
}
