package harness

// oracle_unbond.go — C02 (unbonding payout: once, exact, not early) and
// C07 (slashing of pending unbondings / redelegations: exact, single, scoped).

import (
	"fmt"
	"math/big"
	"sort"
)

// ---------- C02 ----------

type OracleC02 struct{}

func (OracleC02) Name() string           { return "C02" }
func (OracleC02) Before(x *Exec, op *Op) {}
func (OracleC02) End(x *Exec)            {}

func idxKey(d, v int, denom string, c int64) string {
	return fmt.Sprintf("%d|%d|%s|%d", d, v, denom, c)
}

func (o OracleC02) After(x *Exec, op *Op, res *Res) {
	pre, post := x.Pre(), x.Post()
	switch op.K {
	case KBlock:
		if res.AllianceEBErr != "" || res.StakingEBErr != "" {
			return
		}
		// 1. payouts: each delegator's balance delta per denom equals what the ledger says matured
		due := map[string]*big.Int{}
		for _, u := range x.L.Due {
			k := fmt.Sprintf("%d|%s", u.D, u.Denom)
			if due[k] == nil {
				due[k] = new(big.Int)
			}
			due[k].Add(due[k], u.Remaining)
		}
		if len(x.L.Due) > 0 {
			x.Label("c02:payout")
			byBucket := map[string]int{}
			for _, u := range x.L.Due {
				byBucket[fmt.Sprintf("%d|%d", u.D, u.Completion.UnixNano())]++
			}
			for _, n := range byBucket {
				if n >= 2 {
					x.Label("c02:payout-from-bucket>=2")
				}
			}
		}
		for _, u := range x.L.Unb {
			if u.Completion.Equal(x.LastEndTime) {
				x.Label("c02:boundary-T==completion")
			}
		}
		for i := range post.Users {
			denoms := map[string]bool{}
			for _, c := range pre.Users[i] {
				denoms[c.Denom] = true
			}
			for _, c := range post.Users[i] {
				denoms[c.Denom] = true
			}
			dIdx := i
			if i == len(post.Users)-1 {
				dIdx = 100
			}
			for _, d := range sortedKeys(denoms) {
				delta := new(big.Int).Sub(amountOf(post.Users[i], d), amountOf(pre.Users[i], d))
				want := due[fmt.Sprintf("%d|%s", dIdx, d)]
				if want == nil {
					want = new(big.Int)
				}
				if delta.Cmp(want) != 0 {
					x.Fail("C02", "payout", "end of block at %s: delegator %d received %s %s but the matured unbondings (completion < block time) amount to %s",
						x.LastEndTime.UTC().Format("15:04:05.000000000"), dIdx, delta, d, want)
				}
			}
		}
		o.compareStore(x, post, "after end of block")
	case KUndelegate:
		if res.OK {
			// the user must not be paid at undelegation time: the amount stays in custody, and
			// whatever the delegator receives in that denomination is a reward payout
			// (rewards pool / distribution outflow), never custody
			i := op.D
			if op.D == 100 {
				i = len(post.Users) - 1
			}
			got := new(big.Int).Sub(amountOf(post.Users[i], op.Denom), amountOf(pre.Users[i], op.Denom))
			fromRewards := new(big.Int).Sub(amountOf(pre.Rewards, op.Denom), amountOf(post.Rewards, op.Denom))
			fromRewards.Add(fromRewards, new(big.Int).Sub(amountOf(pre.Distr, op.Denom), amountOf(post.Distr, op.Denom)))
			if got.Sign() < 0 || got.Cmp(fromRewards) > 0 || amountOf(post.Module, op.Denom).Cmp(amountOf(pre.Module, op.Denom)) < 0 {
				x.Fail("C02", "early-payout", "undelegate paid the delegator %s %s immediately (reward outflow %s, custody %s -> %s)", got, op.Denom, fromRewards, amountOf(pre.Module, op.Denom), amountOf(post.Module, op.Denom))
			}
		}
		o.compareStore(x, post, "after undelegate")
	case KSlash, KSlashHook:
		// "a minus only the slashes applied to V while the entry was pending": after a slash every
		// stored entry must equal the ledger's (entries from the slashed validator reduced once by
		// floor(f*balance), everything else untouched). Only after an aborted callback (C08's
		// business, listed finding F-C08b) does the ledger adopt the store.
		if x.L.LastSlashHookErr != "" || res.Panic != "" {
			if !eqStrings(post.UnbMultiset(), x.L.UnbMultiset()) {
				x.L.ResyncUnb(post)
				x.Label("c02:resync-after-aborted-slash-callback")
			}
			break
		}
		if x.L.LastSlashFrac != nil {
			x.Label("c02:slash-judged")
		}
		o.compareStore(x, post, "after slash")
	default:
		o.compareStore(x, post, "after "+op.K)
	}
}

// compareStore: the multiset of stored entries and the set of per-validator index keys
// equal the ledger's pending set.
func (OracleC02) compareStore(x *Exec, s *Snap, when string) {
	have, want := s.UnbMultiset(), x.L.UnbMultiset()
	if !eqStrings(have, want) {
		x.Fail("C02", "entries", "%s: stored unbonding entries %v differ from the pending set derived from the history %v", when, have, want)
	}
	idx := map[string]bool{}
	for _, u := range x.L.Unb {
		idx[idxKey(u.D, u.V, u.Denom, u.Completion.UnixNano())] = true
	}
	got := map[string]bool{}
	for _, i := range s.UnbIdx {
		got[idxKey(i.D, i.V, i.Denom, i.Completion.UnixNano())] = true
	}
	a, b := sortedKeys(got), sortedKeys(idx)
	if !eqStrings(a, b) {
		x.Fail("C02", "index", "%s: per-validator unbonding index keys %v differ from the pending set %v", when, a, b)
	}
}

// ---------- C07 ----------

type OracleC07 struct{}

func (OracleC07) Name() string           { return "C07" }
func (OracleC07) Before(x *Exec, op *Op) {}
func (OracleC07) End(x *Exec)            {}

func (o OracleC07) After(x *Exec, op *Op, res *Res) {
	if op.K != KSlash && op.K != KSlashHook {
		// keep the ledger honest between slashes: amounts only change through slashes
		return
	}
	pre, post := x.Pre(), x.Post()
	f := x.L.LastSlashFrac
	if f == nil {
		// callback not invoked (nothing burned): nothing may change
		if !eqStrings(pre.UnbMultiset(), post.UnbMultiset()) {
			x.Fail("C07", "untouched", "a slash that burned nothing changed unbonding entries")
		}
		return
	}
	if x.L.LastSlashHookErr != "" {
		// totality is C08; after an aborted callback the ledger adopts the store
		x.L.ResyncUnb(post)
		return
	}
	// (a) unbonding entries: exact, once, scoped
	have, want := post.UnbMultiset(), x.L.UnbMultiset()
	if !eqStrings(have, want) {
		x.Fail("C07", "unbonding-entries", "slash of validator %d by %s: unbonding entries are %v, expected (each pending entry from that validator reduced once by floor(f*balance), all others untouched) %v; before: %v",
			op.V, f.FloatString(18), have, want, pre.UnbMultiset())
	}
	// (b) the fee collector gains exactly what was removed, custody loses exactly that
	denoms := map[string]bool{}
	for d := range x.L.LastSlashRemoved {
		denoms[d] = true
	}
	for _, d := range custodyDenoms(pre, post) {
		denoms[d] = true
	}
	for _, d := range sortedKeys(denoms) {
		wantGain := x.L.LastSlashRemoved[d]
		if wantGain == nil {
			wantGain = new(big.Int)
		}
		gain := new(big.Int).Sub(amountOf(post.FeeColl, d), amountOf(pre.FeeColl, d))
		if gain.Cmp(wantGain) != 0 {
			x.Fail("C07", "fee-collector", "slash removed %s %s from pending unbondings but the fee collector gained %s", wantGain, d, gain)
		}
	}
	// (c) redelegations out of the slashed validator
	o.checkRedelegations(x, op, pre, post, f)
}

type posKey struct {
	D, T  int
	Denom string
}

func (o OracleC07) checkRedelegations(x *Exec, op *Op, pre, post *Snap, f *big.Rat) {
	T0 := pre.Time
	// tokens to remove per destination position according to the specification
	spec := map[posKey]*big.Int{}
	// tokens the listed finding F-C07b predicts: the record keyed (delegator, denom,
	// destination, completion) merges all sources, and the whole merged balance is slashed
	// once per source index that points at it.
	merged := map[string]*big.Int{}
	mkey := func(r *LRedel) string {
		return fmt.Sprintf("%d|%d|%s|%d", r.D, r.T, r.Denom, r.Completion.UnixNano())
	}
	for _, r := range x.L.Redel {
		k := mkey(r)
		if merged[k] == nil {
			merged[k] = new(big.Int)
		}
		merged[k].Add(merged[k], r.Amt)
	}
	known := map[posKey]*big.Int{}
	seenMerged := map[string]bool{}
	hasMergeDiff := false
	affected := map[posKey]bool{}
	for _, r := range x.L.Redel {
		if r.S != op.V || r.Completion.Before(T0) {
			continue
		}
		pk := posKey{r.D, r.T, r.Denom}
		affected[pk] = true
		cut := ratFloor(new(big.Rat).Mul(f, new(big.Rat).SetInt(r.Amt)))
		if spec[pk] == nil {
			spec[pk] = new(big.Int)
			known[pk] = new(big.Int)
		}
		spec[pk].Add(spec[pk], cut)
		// finding prediction: one slash of floor(f*mergedBalance) per distinct index key
		// (src, completion, denom, dst, del) — several ledger entries with the same source
		// share one index key.
		ik := mkey(r) + fmt.Sprintf("|src%d", r.S)
		if !seenMerged[ik] {
			seenMerged[ik] = true
			mcut := ratFloor(new(big.Rat).Mul(f, new(big.Rat).SetInt(merged[mkey(r)])))
			known[pk].Add(known[pk], mcut)
		}
	}
	for pk := range spec {
		// same-source repeats: the implementation slashes floor(f*sum) once instead of
		// Σ floor(f*x_i); both are accepted by the bracket below (differences < #entries).
		if known[pk].Cmp(spec[pk]) != 0 {
			hasMergeDiff = true
		}
	}
	if len(affected) > 0 {
		x.Label("c07:redelegation-slashed")
	}
	// positions that are not destinations of a pending redelegation out of V must keep their shares
	for _, d := range pre.Dels {
		pk := posKey{d.D, d.V, d.Denom}
		if affected[pk] {
			continue
		}
		nd, ok := post.FindDel(d.D, d.V, d.Denom)
		if !ok || !nd.Shares.Equal(d.Shares) {
			x.Fail("C07", "redelegation-scope", "slash of validator %d changed the shares of position %s, which is not the destination of a pending redelegation out of it", op.V, d.Key())
		}
	}
	pks := make([]posKey, 0, len(affected))
	for pk := range affected {
		pks = append(pks, pk)
	}
	sort.Slice(pks, func(i, j int) bool {
		return fmt.Sprint(pks[i]) < fmt.Sprint(pks[j])
	})
	for _, pk := range pks {
		d, ok := pre.FindDel(pk.D, pk.T, pk.Denom)
		if !ok {
			continue // destination position gone: nothing left to slash (C08 covers the callback's behaviour)
		}
		nd, ok2 := post.FindDel(pk.D, pk.T, pk.Denom)
		removed := decRat(d.Shares)
		if ok2 {
			removed = new(big.Rat).Sub(decRat(d.Shares), decRat(nd.Shares))
		}
		if removed.Sign() < 0 {
			x.Fail("C07", "redelegation-amount", "slash increased the shares of destination position %s", d.Key())
		}
		check := func(tokens *big.Int) bool {
			return o.sharesWithin(x, pre, post, d, pk, tokens, removed)
		}
		if check(spec[pk]) {
			continue
		}
		if hasMergeDiff && check(known[pk]) {
			x.KnownFinding("F-C07b")
			x.Label("c07:merged-record")
			continue
		}
		x.Fail("C07", "redelegation-amount", "slash of validator %d by %s: destination position %s lost %s shares; the pending redelegations out of the slashed validator call for %s tokens, i.e. %s",
			op.V, f.FloatString(18), d.Key(), removed.FloatString(18), spec[pk], x.lastBracket)
	}
}

// sharesWithin decides whether `removed` delegation shares are what removing `tokens`
// from position d is worth at the destination's share price, bracketed by the price
// before the first and after the last removal of this callback, capped at the position.
func (OracleC07) sharesWithin(x *Exec, pre, post *Snap, d DelSnap, pk posKey, tokens *big.Int, removed *big.Rat) bool {
	vt := post.ValTokens(pk.T, pk.Denom) // validator-level value is not touched by the redelegation slash itself
	sBefore := decRat(pre.Vals[pk.T].DelShares[pk.Denom])
	sAfterDec, ok := post.Vals[pk.T].DelShares[pk.Denom]
	sAfter := new(big.Rat)
	if ok {
		sAfter = decRat(sAfterDec)
	}
	full := decRat(d.Shares)
	if vt.Sign() <= 0 || pre.ValTokens(pk.T, pk.Denom).Sign() <= 0 {
		// the destination validator's stake in the asset is worth nothing (it was slashed away): the
		// position "still holds" nothing, so the cap of the specification leaves only removed <= held
		x.Label("c07:destination-validator-worthless")
		return removed.Cmp(full) <= 0
	}
	if sd, ok := post.Vals[pk.T].DelShares[pk.Denom]; !ok || sd.TruncateInt().IsZero() {
		// the destination's total delegator shares fell below one share during this callback: from
		// then on the module prices removals 1:1 (its own "no shares yet" convention) — the
		// ownerless-value regime of the listed finding F-C04a; only the cap applies
		x.KnownFinding("F-C04a")
		x.Label("c07:destination-total-below-one-share")
		return removed.Cmp(full) <= 0
	}
	if x.PrecisionCollapsed(pk.Denom) || orphanedValidator(pre, pk.Denom) || degenerateAsset(pre, pk.Denom) {
		x.Label("c07:ownerless-value-state")
		return removed.Cmp(full) <= 0 // no meaningful share price (listed finding F-C04a); only the cap applies
	}
	// The module knows a validator's token value only to within TotalTokens*1e-18
	// (a ratio rounded at 18 digits multiplied by the asset total): stated tolerance §2.6.
	tol := assetTol(pre, post, pk.Denom)
	vtLo := new(big.Rat).Sub(vt, tol)
	vtHi := new(big.Rat).Add(vt, tol)
	t := new(big.Rat).SetInt(tokens)
	// the module's 0.01-token rounder and the "within 0.01 share => take all" rule
	tHi := new(big.Rat).Add(t, big.NewRat(2, 100))
	tLo := new(big.Rat).Sub(t, big.NewRat(2, 100))
	if tLo.Sign() < 0 {
		tLo = new(big.Rat)
	}
	var hi *big.Rat
	if vtLo.Sign() <= 0 {
		hi = new(big.Rat).Set(full) // price not resolvable at this precision: anything up to the position
	} else {
		hi = new(big.Rat).Quo(new(big.Rat).Mul(tHi, sBefore), vtLo)
		hi.Add(hi, new(big.Rat).Mul(hi, big.NewRat(1, 100_000_000_000_000_000)))
		hi.Add(hi, big.NewRat(2, 100))
	}
	lo := new(big.Rat).Quo(new(big.Rat).Mul(tLo, sAfter), vtHi)
	lo.Sub(lo, new(big.Rat).Mul(lo, big.NewRat(1, 100_000_000_000_000_000)))
	lo.Sub(lo, big.NewRat(2, 100))
	// the module multiplies the tokens by a shares-per-token ratio rounded at 1e-18 (absolute):
	// up to tokens * 1e-18 shares either way (the ratio underflows to 0 below 5e-19)
	res := new(big.Rat).Mul(tHi, big.NewRat(1, 1_000_000_000_000_000_000))
	lo.Sub(lo, res)
	if vtLo.Sign() > 0 {
		hi.Add(hi, res)
	}
	if hi.Cmp(full) >= 0 {
		// capped at what the position still holds
		hi = full
		if lo.Cmp(full) > 0 {
			lo = full
		}
	}
	if lo.Sign() < 0 {
		lo = new(big.Rat)
	}
	x.lastBracket = fmt.Sprintf("[%s, %s] shares (validator value %s, tolerance %s)", lo.FloatString(6), hi.FloatString(6), vt.FloatString(3), tol.FloatString(3))
	return removed.Cmp(lo) >= 0 && removed.Cmp(hi) <= 0
}
