package harness

// oracle_live.go — C05 (users can always enter, claim, exit) and C17 (end-of-block never fails).

import (
	"fmt"
	"math/big"
	"regexp"
	"strings"

	"cosmossdk.io/math"
	sdk "github.com/cosmos/cosmos-sdk/types"

	alliancetypes "github.com/terra-money/alliance/x/alliance/types"
)

// ---------- C17 ----------

type OracleC17 struct{}

func (OracleC17) Name() string           { return "C17" }
func (OracleC17) Before(x *Exec, op *Op) {}
func (OracleC17) End(x *Exec)            {}

func (OracleC17) After(x *Exec, op *Op, res *Res) {
	switch op.K {
	case KParams, KUpdate, KCreate, KDelete:
		if res.OK && len(x.Log) > 6 {
			x.Label("c17:gov-change-accepted")
		}
	case KBlock:
		if x.Has("c17:gov-change-accepted") {
			x.Label("c17:block-after-gov-change")
		}
	}
}

func (o OracleC17) AfterHalt(x *Exec, op *Op, res *Res) {
	if op.K != KBlock {
		return
	}
	if res.AllianceEBErr == "" {
		// the halt is outside the module's end-of-block (staking end-blocker / begin-block)
		x.Label("c17:halt-outside-alliance-endblock")
		return
	}
	msg := res.AllianceEBErr
	pre := x.Pre()
	// Listed finding F-C17b: decay with rate > 1 overflows in Power()/Mul() once enough
	// intervals have elapsed.
	if strings.Contains(msg, "overflow") {
		for _, dn := range pre.AssetOrder {
			a := pre.Assets[dn]
			if a.RewardChangeInterval > 0 && a.RewardChangeRate.GT(math.LegacyOneDec()) &&
				!a.LastRewardChangeTime.Add(a.RewardChangeInterval).After(pre.Time) {
				x.KnownFinding("F-C17b")
				return
			}
		}
	}
	// Listed finding F-C17d: governance accepts any non-negative reward weight; once weight x
	// native bonded stake exceeds what x/staking can express as consensus power (int64 of
	// tokens / 1e6, about 9.2e24 tokens) the rebalancer mints it and x/staking panics
	if strings.Contains(msg, "Int64() out of bound") {
		sum := new(big.Rat)
		for _, dn := range pre.AssetOrder {
			a := pre.Assets[dn]
			// the weight the end-blocker will use: decay towards the range bound is applied first
			w := decRat(a.RewardWeight)
			if a.RewardChangeInterval > 0 && a.RewardChangeRate.GT(math.LegacyOneDec()) {
				w = decRat(a.RewardWeightRange.Max)
			}
			sum.Add(sum, new(big.Rat).Mul(w, intRat(pre.TotalBonded)))
		}
		if sum.Cmp(new(big.Rat).SetInt(pow10(24))) >= 0 {
			x.KnownFinding("F-C17d")
			x.Label("c17:alliance-stake-beyond-int64-power")
			return
		}
	}
	// Listed finding F-C04a (consequence): after an asset went through the ownerless-value state
	// a position can be over-reported and over-withdrawn; the matured unbonding then exceeds
	// custody and CompleteUnbondings fails with the bank's insufficient-funds error.
	if strings.Contains(msg, "failed to complete undelegations") && (strings.Contains(msg, "insufficient funds") || strings.Contains(msg, "is smaller than")) {
		for _, dn := range AssetDenoms {
			if regexp.MustCompile(`[0-9]`+regexp.QuoteMeta(dn)+`([^a-zA-Z0-9/:._-]|$)`).MatchString(msg) && x.PrecisionCollapsed(dn) {
				x.KnownFinding("F-C04a")
				return
			}
		}
	}
	x.Fail("C17", "endblock", "end-of-block processing failed at %s: %s", pre.Time.UTC().Format("2006-01-02T15:04:05.000000000"), msg)
}

// ---------- C05 ----------

type OracleC05 struct {
	step int
	// wiped: "validator|denom" pairs whose validator shares were dropped by an undelegation or
	// redelegation although the stake left on the validator was not worthless (its share of the
	// asset was well above the 1e-18 resolution): a zero-valued validator that arose this way is
	// not the listed finding F-C05a (100% slash / share of the asset below 1e-18)
	wiped map[string]bool
}

func (*OracleC05) Name() string           { return "C05" }
func (*OracleC05) Before(x *Exec, op *Op) {}
func (*OracleC05) End(x *Exec)            {}

var haveRe = regexp.MustCompile(`wanted (\d+) but have (\d+)`)

func (o *OracleC05) try(x *Exec, f func(ctx sdk.Context) error) (ok bool, msg string) {
	c, _ := x.Ctx.CacheContext()
	defer func() {
		if r := recover(); r != nil {
			ok, msg = false, fmt.Sprintf("panic: %v", r)
		}
	}()
	if err := f(c); err != nil {
		return false, err.Error()
	}
	return true, ""
}

func (o *OracleC05) After(x *Exec, op *Op, res *Res) {
	o.step++
	w := x.W
	s := x.Post()
	if res.OK && (op.K == KUndelegate || op.K == KRedelegate) {
		pre := x.Pre()
		a, okA := pre.Assets[op.Denom]
		pvs, ok1 := pre.Vals[op.V].ValShares[op.Denom]
		nvs, ok2 := s.Vals[op.V].ValShares[op.Denom]
		ntds, ok3 := s.Vals[op.V].DelShares[op.Denom]
		if okA && ok1 && pvs.IsPositive() && (!ok2 || nvs.IsZero()) && ok3 && ntds.IsPositive() && a.TotalTokens.IsPositive() && a.TotalValidatorShares.IsPositive() {
			// share of the asset the validator should be left with: (vs*T - amt*S) / (S*(T - amt)) after an
			// undelegation, (vs*T - amt*S) / (S*T) after a redelegation
			S, T, amt := decRat(a.TotalValidatorShares), intRat(a.TotalTokens), new(big.Rat).SetInt(bigOf(op.Amt))
			num := new(big.Rat).Sub(new(big.Rat).Mul(decRat(pvs), T), new(big.Rat).Mul(amt, S))
			den := new(big.Rat).Mul(S, new(big.Rat).Sub(T, amt))
			if op.K == KRedelegate {
				den = new(big.Rat).Mul(S, T) // a redelegation leaves the asset's totals unchanged
			}
			// validator shares the record should be left with: vs - amt*S/T. Less than one share can
			// legitimately vanish in the module's rounding-tolerant subtraction (the record is emptied
			// when the overdraft is below one share — the dust of the listed finding F-C03)
			removedShares := new(big.Rat).Quo(new(big.Rat).Mul(amt, S), T)
			left := new(big.Rat).Sub(decRat(pvs), removedShares)
			// the module computes the shares to remove from an 18-digit ratio: absolute error up to
			// ~1e-17 of the removed amount, on top of the one-share clamp
			slack := new(big.Rat).Add(big.NewRat(1, 1), new(big.Rat).Mul(removedShares, big.NewRat(1, 100_000_000_000_000_000)))
			if den.Sign() > 0 && num.Sign() > 0 && new(big.Rat).Quo(num, den).Cmp(big.NewRat(1, 100_000_000_000_000_000)) >= 0 && left.Cmp(slack) >= 0 {
				if o.wiped == nil {
					o.wiped = map[string]bool{}
				}
				o.wiped[fmt.Sprintf("%d|%s", op.V, op.Denom)] = true
				x.Label("c05:validator-shares-dropped-with-stake-left")
			}
		}
	}
	if x.Has("ok:"+KSlash) || x.Has("ok:"+KSlashHook) || x.Has("takerate-deducted") {
		if len(s.Dels) >= 2 {
			x.Label("c05:probed-after-slash-or-takerate")
		}
	}
	// ---- enter: a funded account delegates 1 unit and a large amount of every asset to every validator
	for _, dn := range s.AssetOrder {
		for vi, va := range w.Vals {
			if s.Vals[vi].Status == 0 {
				continue // not an existing validator (removed by x/staking)
			}
			for _, amt := range []string{"1", "1000000000000000000"} {
				ok, msg := o.try(x, func(ctx sdk.Context) error {
					_, err := w.MsgSrv.Delegate(ctx, alliancetypes.NewMsgDelegate(w.Probe.String(), va.String(), sdk.NewCoin(dn, parseInt(amt))))
					return err
				})
				if ok {
					continue
				}
				if o.knownBlock(x, s, vi, dn, msg) {
					continue
				}
				x.Fail("C05", "enter", "a user cannot delegate %s %s to validator %d: %s", amt, dn, vi, msg)
			}
		}
	}
	// ---- claim and exit: every position with a positive reported balance
	for _, d := range s.Dels {
		if d.V < 0 {
			continue
		}
		if _, ok := s.Assets[d.Denom]; !ok {
			continue
		}
		if x.Orphaned(d.V, d.Denom) {
			// listed finding F-C05d: the position's validator was removed by x/staking while the
			// position existed; the module deleted the validator's share record, the delegator can
			// neither query, claim nor undelegate (also not after the validator is created again)
			ok, _ := o.try(x, func(ctx sdk.Context) error {
				r, err := w.Query.AllianceDelegation(ctx, &alliancetypes.QueryAllianceDelegationRequest{DelegatorAddr: d.Del, ValidatorAddr: d.Val, Denom: d.Denom})
				if err != nil {
					return err
				}
				if !r.Delegation.Balance.Amount.IsPositive() {
					return fmt.Errorf("nothing reported")
				}
				_, err = w.MsgSrv.Undelegate(ctx, alliancetypes.NewMsgUndelegate(d.Del, d.Val, r.Delegation.Balance))
				return err
			})
			if !ok {
				x.KnownFinding("F-C05d")
				x.Label("c05:position-orphaned-by-validator-removal")
			}
			continue
		}
		qc, _ := x.Ctx.CacheContext()
		qr, err := w.Query.AllianceDelegation(qc, &alliancetypes.QueryAllianceDelegationRequest{DelegatorAddr: d.Del, ValidatorAddr: d.Val, Denom: d.Denom})
		if err != nil {
			x.Fail("C05", "exit", "balance query failed for position %s: %v", d.Key(), err)
		}
		bal := qr.Delegation.Balance.Amount
		if !bal.IsPositive() {
			continue
		}
		ok, msg := o.try(x, func(ctx sdk.Context) error {
			_, err := w.MsgSrv.ClaimDelegationRewards(ctx, alliancetypes.NewMsgClaimDelegationRewards(d.Del, d.Val, d.Denom))
			return err
		})
		if !ok && !o.knownBlock(x, s, d.V, d.Denom, msg) {
			x.Fail("C05", "claim", "position %s cannot claim: %s", d.Key(), msg)
		}
		undel := func(amt math.Int) (bool, string) {
			return o.try(x, func(ctx sdk.Context) error {
				_, err := w.MsgSrv.Undelegate(ctx, alliancetypes.NewMsgUndelegate(d.Del, d.Val, sdk.NewCoin(d.Denom, amt)))
				return err
			})
		}
		ok, msg = undel(bal)
		if ok {
			x.Label("c05:full-exit-ok")
			continue
		}
		if o.knownBlock(x, s, d.V, d.Denom, msg) {
			continue
		}
		// Listed finding F-C20c: the reported balance is not withdrawable because of 18-digit
		// rounding in the token<->share round trip. The delegator must still be able to
		// leave: following the module's own "have N" hints must lead to an accepted amount
		// within tolerance of the position's exact value.
		refusal := strings.Contains(msg, "insufficient delegation shares") || strings.Contains(msg, "insufficient tokens") || strings.Contains(msg, "negative coin amount")
		regime := roundTripRegime(s, d)
		over := new(big.Rat).SetInt(bal.BigInt()).Cmp(s.PosValue(d)) > 0
		if refusal && !strings.Contains(msg, "negative coin amount") && !refusalPredicted(s, d, bal, msg) {
			x.Fail("C05", "exit", "position %s reports balance %s (exact value %s) and the module's documented acceptance rule admits undelegating it, but the module refuses: %s", d.Key(), bal, s.PosValue(d).FloatString(6), msg)
		}
		if refusal && (over || regime.Cmp(big.NewRat(1, 10)) >= 0) {
			// tokens per delegator share on this validator: after a concentration of value by
			// heavy slashing (factor g >= 8) the 18-digit shares-per-token ratio has so few
			// digits that only chunks below ~1/tps of a position pass; the lock detector below
			// is meaningful for tps <= 8 only (it tries chunks of 8-10%)
			tps := new(big.Rat)
			if tds, ok := s.Vals[d.V].DelShares[d.Denom]; ok && tds.IsPositive() {
				tps.Quo(s.ValTokens(d.V, d.Denom), decRat(tds))
			}
			if tps.Cmp(big.NewRat(8, 1)) > 0 {
				x.KnownFinding("F-C20c")
				x.Label("c05:exit-search-skipped-value-concentrated-by-slashing")
				continue
			}
			exited, last := o.exitSearch(x, s, d, bal, msg, undel)
			if !exited {
				x.Fail("C05", "exit", "position %s (reported %s, exact value %s) cannot undelegate its balance nor any hinted amount: %s", d.Key(), bal, s.PosValue(d).FloatString(3), last)
			}
			x.KnownFinding("F-C20c")
			x.Label("c05:exit-needed-hint")
			continue
		}
		x.Fail("C05", "exit", "position %s reports balance %s (exact value %s) but cannot undelegate it: %s", d.Key(), bal, s.PosValue(d).FloatString(3), msg)
	}
}

// exitSearch looks for an accepted amount within tolerance of the position's exact
// value: the reported balance and the exact value, each followed through the module's
// own "wanted A but have B" hints, then a few amounts just below.
func (o *OracleC05) exitSearch(x *Exec, s *Snap, d DelSnap, bal math.Int, msg string, undel func(math.Int) (bool, string)) (bool, string) {
	tol := assetTol(s, s, d.Denom)
	v := s.PosValue(d)
	floorOK := new(big.Rat).Mul(v, big.NewRat(1, 20))
	follow := func(start math.Int, m string) (bool, string) {
		amt := start
		for i := 0; i < 6; i++ {
			h := haveRe.FindStringSubmatch(m)
			if h == nil {
				return false, m
			}
			amt = parseInt(h[2])
			if !amt.IsPositive() {
				return true, ""
			}
			_ = floorOK
			var ok bool
			if ok, m = undel(amt); ok {
				return true, ""
			}
		}
		return false, m
	}
	if ok, _ := follow(bal, msg); ok {
		return true, ""
	}
	last := msg
	cands := []*big.Int{ratFloor(v)}
	cands = append(cands, new(big.Int).Sub(cands[0], big.NewInt(1)))
	for _, k := range []int64{1, 2, 4} {
		cands = append(cands, ratFloor(new(big.Rat).Sub(v, new(big.Rat).Mul(tol, big.NewRat(k, 4)))))
	}
	// In the rounding regime the module's value estimate is systematically off by more
	// than its 0.01 margin, so only amounts up to some fraction of the position pass; a
	// delegator who can still withdraw a substantial part is not locked in.
	for _, pct := range []int64{90, 66, 50, 25, 10} {
		cands = append(cands, ratFloor(new(big.Rat).Mul(v, big.NewRat(pct, 100))))
	}
	for _, c := range cands {
		if c.Sign() <= 0 {
			return true, "" // nothing of value left to withdraw at this precision
		}
		amt := parseInt(c.String())
		ok, m := undel(amt)
		if ok {
			return true, ""
		}
		if ok2, m2 := follow(amt, m); ok2 {
			return true, ""
		} else {
			last = m2
		}
	}
	// When the module's 18-digit estimate of the validator's token value lies below the exact
	// value by a relative amount e, tokens(shares(X)) comes out about X*e short, so only
	// requests with X*e below the 0.01 margin pass: chunks of at most 0.01/e. Try such chunks.
	if tds, ok := s.Vals[d.V].DelShares[d.Denom]; ok && tds.IsPositive() {
		a := s.Assets[d.Denom]
		if vs, ok := s.Vals[d.V].ValShares[d.Denom]; ok && a.TotalValidatorShares.IsPositive() {
			modVT := decRat(vs.Quo(a.TotalValidatorShares).MulInt(a.TotalTokens))
			exact := s.ValTokens(d.V, d.Denom)
			if exact.Sign() > 0 && modVT.Cmp(exact) < 0 {
				e := new(big.Rat).Quo(new(big.Rat).Sub(exact, modVT), exact)
				chunk := new(big.Rat).Quo(big.NewRat(1, 100), e)
				if chunk.Cmp(v) > 0 {
					chunk = new(big.Rat).Set(v)
				}
				for k := 1; k <= 6; k++ {
					chunk.Quo(chunk, big.NewRat(2, 1))
					c := ratFloor(chunk)
					if c.Sign() <= 0 {
						return true, "" // chunks below one base unit: nothing withdrawable at this precision
					}
					ok, m := undel(parseInt(c.String()))
					if ok {
						x.Label("c05:exit-only-in-small-chunks")
						return true, ""
					}
					if ok2, m2 := follow(parseInt(c.String()), m); ok2 {
						x.Label("c05:exit-only-in-small-chunks")
						return true, ""
					} else {
						last = m2
					}
				}
			}
		}
	}
	// The 18-digit round trip tokens -> shares -> tokens loses (or gains) a relative amount e that
	// depends on how the validator's share of the asset rounds; only requests with X*e below the
	// module's 0.01 margin pass. Halve the amount until one is accepted: a delegator who can
	// withdraw in chunks is not locked in (the refusal of the full balance is F-C20c).
	for c := ratFloor(new(big.Rat).Mul(v, big.NewRat(1, 2))); c.Sign() > 0; c = new(big.Int).Rsh(c, 1) {
		ok, m := undel(parseInt(c.String()))
		if ok {
			x.Label("c05:exit-only-in-small-chunks")
			return true, ""
		}
		last = m
	}
	// the rounding of shares/total at 18 digits makes acceptance of a given amount a matter of
	// which way that rounding falls; amounts around a tenth of the position pass roughly
	// every other time — try many distinct ones before calling the position locked
	step := ratFloor(new(big.Rat).Mul(v, big.NewRat(1, 1_000_003)))
	step.Add(step, big.NewInt(7919))
	base := ratFloor(new(big.Rat).Mul(v, big.NewRat(8, 100)))
	for k := int64(0); k < 60; k++ {
		amt := new(big.Int).Add(base, new(big.Int).Mul(step, big.NewInt(k)))
		if amt.Sign() <= 0 {
			return true, ""
		}
		ok, m := undel(parseInt(amt.String()))
		if ok {
			return true, ""
		}
		last = m
	}
	return false, last
}

// knownBlock classifies a refusal under the listed findings that block users.
func (o *OracleC05) knownBlock(x *Exec, s *Snap, v int, denom string, msg string) bool {
	switch {
	case strings.Contains(msg, "division by zero"):
		// F-C05a: a validator whose token value in some asset is zero (as the module's
		// 18-digit arithmetic sees it) while it carries delegator shares — after a 100%
		// slash, or because its share of the asset is below 1e-18.
		if o.zeroValued(s, v, denom) && !o.wiped[fmt.Sprintf("%d|%s", v, denom)] {
			x.KnownFinding("F-C05a")
			x.Label("c05:zero-valued-validator")
			return true
		}
	case strings.Contains(msg, "insufficient funds") || strings.Contains(msg, "is smaller than"):
		// F-C05b: the shared rewards pool cannot pay what the claim computes (C12's findings)
		if strings.Contains(msg, "spendable balance") || strings.Contains(msg, "insufficient funds") {
			x.KnownFinding("F-C05b")
			x.Label("c05:pool-shortfall")
			return true
		}
	}
	if x.PrecisionCollapsed(denom) || degenerateAsset(s, denom) || orphanedValidator(s, denom) {
		x.KnownFinding("F-C04a")
		x.Label("c05:ownerless-value-state")
		return true
	}
	return false
}

func (o *OracleC05) zeroValued(s *Snap, v int, denom string) bool {
	return moduleSeesZeroValue(s, v, denom)
}

// moduleSeesZeroValue: validator v carries delegator shares in denom but its token
// value, as the module's 18-digit arithmetic computes it, is zero.
func moduleSeesZeroValue(s *Snap, v int, denom string) bool {
	// as the module computes it: shares.Quo(total).Mul(tokens) in 18-digit decimals
	for _, dn := range s.AssetOrder {
		if dn != denom {
			continue
		}
		a := s.Assets[dn]
		tds, ok := s.Vals[v].DelShares[dn]
		if !ok || tds.IsZero() {
			continue
		}
		vs, ok := s.Vals[v].ValShares[dn]
		if !ok {
			vs = math.LegacyZeroDec()
		}
		var vt math.LegacyDec
		if a.TotalValidatorShares.IsZero() {
			vt = math.LegacyNewDecFromInt(a.TotalTokens) // the module's convention when no shares are recorded
		} else {
			vt = vs.Quo(a.TotalValidatorShares).MulInt(a.TotalTokens)
		}
		if vt.IsZero() {
			return true
		}
	}
	return false
}
