package harness

// ops.go — the concrete operation alphabet and its executor. Every op is a plain
// JSON-serialisable value; a replay file is a list of them. The executor drives the
// real keepers / message servers of /repo with baseapp's transaction semantics.

import (
	"encoding/json"
	"fmt"
	"math/big"
	"runtime/debug"
	"sort"
	"strings"
	"time"

	"cosmossdk.io/core/appmodule"
	"cosmossdk.io/log"
	"cosmossdk.io/math"
	abci "github.com/cometbft/cometbft/abci/types"
	sdk "github.com/cosmos/cosmos-sdk/types"
	"github.com/cosmos/cosmos-sdk/types/module"
	crisistypes "github.com/cosmos/cosmos-sdk/x/crisis/types"
	minttypes "github.com/cosmos/cosmos-sdk/x/mint/types"
	stakingtypes "github.com/cosmos/cosmos-sdk/x/staking/types"

	govv1beta1 "github.com/cosmos/cosmos-sdk/x/gov/types/v1beta1"
	"github.com/terra-money/alliance/x/alliance"
	alliancekeeper "github.com/terra-money/alliance/x/alliance/keeper"
	alliancetypes "github.com/terra-money/alliance/x/alliance/types"
)

// Op kinds.
const (
	KDelegate   = "delegate"
	KUndelegate = "undelegate"
	KRedelegate = "redelegate"
	KClaim      = "claim"
	KNatDel     = "native_delegate"
	KNatUndel   = "native_undelegate"
	KNatRedel   = "native_redelegate"
	KDonate     = "donate"
	KBlock      = "next_block"
	KSlash      = "slash"      // real StakingKeeper.Slash
	KSlashHook  = "slash_hook" // callback level
	KJail       = "jail"
	KUnjail     = "unjail"
	KCreate     = "create_alliance"
	KUpdate     = "update_alliance"
	KDelete     = "delete_alliance"
	KParams     = "update_params"
	KUnbTime    = "set_unbonding_time"
	KMaxVals    = "set_max_validators"
	KClaimAll   = "claim_all"
	KExportImp  = "export_import"
	// validator life cycle: every native delegator of the validator (its operator included) removes
	// its whole delegation — the validator is jailed for falling below its minimum self-delegation,
	// unbonds, and is removed by x/staking once nothing is delegated to it any more
	KValExit = "validator_exit"
	// the operator of a removed validator creates it again (same operator address and consensus key)
	KValCreate = "validator_create"
	// the module state is exported, every alliance key deleted and the export imported again, in
	// place (a chain restart from an exported genesis): nothing observable may change, so every
	// property's oracle keeps judging the history that follows
	KReimport = "export_import_in_place"
)

// Op is one concrete step of a history.
type Op struct {
	K     string `json:"k"`
	D     int    `json:"d,omitempty"`     // delegator index (alliance delegators; native delegators for native ops)
	V     int    `json:"v,omitempty"`     // validator index
	W     int    `json:"w,omitempty"`     // destination validator index
	Denom string `json:"denom,omitempty"` //
	Amt   string `json:"amt,omitempty"`   // integer
	Dt    int64  `json:"dt,omitempty"`    // nanoseconds
	Frac  string `json:"frac,omitempty"`  // decimal
	Fees  string `json:"fees,omitempty"`  // coins string minted into the fee collector at begin-block
	Power int64  `json:"power,omitempty"` // slash: power at infraction
	Age   int64  `json:"age,omitempty"`   // slash: infraction height = height - age
	Jail  bool   `json:"jail,omitempty"`

	// governance
	Signer   string `json:"signer,omitempty"` // "auth" | "stranger" | "malformed" | "empty"
	Legacy   bool   `json:"legacy,omitempty"` // via the legacy proposal handler
	RW       string `json:"rw,omitempty"`
	RWMin    string `json:"rwmin,omitempty"`
	RWMax    string `json:"rwmax,omitempty"`
	TakeRate string `json:"take,omitempty"`
	ChRate   string `json:"chrate,omitempty"`
	ChInt    int64  `json:"chint,omitempty"`
	Delay    int64  `json:"delay,omitempty"`    // params.RewardDelayTime
	Interval int64  `json:"interval,omitempty"` // params.TakeRateClaimInterval
	N        int    `json:"n,omitempty"`
}

func (o Op) String() string {
	b, _ := json.Marshal(o)
	return string(b)
}

// Res is the outcome of one op.
type Res struct {
	OK    bool   `json:"ok"`
	Err   string `json:"err,omitempty"`
	Panic string `json:"panic,omitempty"`
	// Sub-results of a block op.
	StakingEBErr  string `json:"staking_eb_err,omitempty"`
	AllianceEBErr string `json:"alliance_eb_err,omitempty"`
	Completion    int64  `json:"completion,omitempty"` // unix nanos for undelegate/redelegate
	err           error
	Events        sdk.Events `json:"-"`
}

func (r Res) Class() string {
	switch {
	case r.Panic != "":
		return "panic"
	case r.OK:
		return "ok"
	default:
		return "err"
	}
}

// Exec executes ops on one branch of the world.
type Exec struct {
	W   *World
	Ctx sdk.Context

	Log                []Op
	Ress               []Res
	Halted             string          // non-empty once the chain would have halted
	LastEndTime        time.Time       // block time at which the last end-of-block ran
	MidSnap            *Snap           // state between the staking and the alliance end-blocker of the last block op
	EndSnap            *Snap           // state at the last block boundary (after both end-blockers, before time advances)
	blockHad           map[string]bool // op kinds executed successfully since the last block boundary
	powerHist          []map[int]int64 // validator powers after the end-blockers of the last blocks (oldest first)
	LastClaimAllFailed []string        // position keys whose claim failed in the last claim_all
	// Twin (C18): a sibling execution whose alliance module state went through
	// ExportGenesis -> wipe -> InitGenesis; every later op is applied to both.
	lastBracket string
	// OwnerlessSeen: denoms that at some point of this history were in the ownerless-value
	// state of the listed finding F-C04a (staked total > 0 with zero validator shares after a
	// 100% slash of every holder). Their accounting is re-anchored by the next delegation with
	// a share price of very few significant digits; exact per-denom equations are not judged
	// for them afterwards (counted under F-C04a).
	OwnerlessSeen map[string]bool
	// AmpSeen: largest fixed-point amplification (oracle_value.go) observed per denom so far.
	AmpSeen map[string]*big.Rat
	// RemovedWithStake: "validator index|denom" pairs (and denoms) of validators that x/staking
	// removed while alliance delegations to them existed — the module deletes the validator's
	// share record and the delegations are orphaned (listed finding F-C05d). Share accounting of
	// such a pair is not judged afterwards (counted).
	RemovedWithStake map[string]bool
	// OverdrawnSeen: denoms whose recorded staked total has been negative by no more than the
	// number of successful undelegations since the asset's shares were last reset: every position
	// may withdraw floor(value + 0.01) from 18-digit rounded ratios, up to nearly one unit more
	// than it is worth, so full exits of every position can add up to more than the total (listed
	// finding F-C04a, over-withdrawal clause). UndelCount feeds that budget.
	OverdrawnSeen map[string]bool
	UndelCount    map[string]int
	// ShareOps / MaxShareTotal: successful undelegations and redelegations of an asset since its
	// last reset, and the largest share total it had meanwhile — the dust allowance of the
	// listed finding F-C03 (one share plus 1e-18 of the share total per such operation) caps how
	// much share-total mismatch assetTol may attribute to rounding.
	ShareOps      map[string]int
	MaxShareTotal map[string]*big.Rat
	MaxTotal      map[string]*big.Rat // largest staked total since the asset's last reset
	Twin          *Exec
	TwinRes       *Res
	ExportA       []byte   // export of the original at the fork
	ExportB       []byte   // export of the re-imported twin at the fork
	ErrLogs       []ErrLog // Error-level log lines (x/staking logs swallowed hook errors)

	Oracles []Oracle
	// OnRejected, when set, is called with the transaction's branch context after a message
	// handler returned an error or panicked, before the branch is discarded.
	OnRejected func(ctx sdk.Context, res *Res)

	// history-derived ledgers (never read back from the module's store)
	L Ledger

	pre, post  *Snap
	Labels     map[string]int // evidence labels of this case
	Viol       *Violation
	Known      map[string]int
	ErrOverTol map[string]float64 // largest observed error/tolerance ratio per quantity
	StopOnVio  bool
}

// curExec is the execution whose step is being judged (one at a time per process); assetTol
// reads its dust allowance.
var curExec *Exec

// Violation is what an oracle reports.
type Violation struct {
	Property string `json:"property"`
	Oracle   string `json:"oracle"`
	Step     int    `json:"step"`
	Msg      string `json:"msg"`
}

type violationPanic struct{ v *Violation }

// Oracle observes every step.
type Oracle interface {
	Name() string
	Before(x *Exec, op *Op)
	After(x *Exec, op *Op, res *Res)
	End(x *Exec)
}

func NewExec(w *World, oracles ...Oracle) *Exec {
	x := &Exec{W: w, Ctx: w.Branch(), Oracles: oracles, Labels: map[string]int{}, Known: map[string]int{}, ErrOverTol: map[string]float64{}}
	x.Ctx = x.Ctx.WithLogger(&capLogger{x: x})
	x.L.init()
	return x
}

// PrecisionCollapsed: the asset went through the ownerless-value state or a state whose
// amplification exceeded 1e6 (value concentrated by a near-total slash): positions can be
// over-reported by far more than a unit and over-withdrawn (listed finding F-C04a and its
// consequences).
func (x *Exec) PrecisionCollapsed(denom string) bool {
	if x.OwnerlessSeen[denom] || x.OverdrawnSeen[denom] {
		return true
	}
	a := x.AmpSeen[denom]
	return a != nil && a.Cmp(big.NewRat(1_000_000, 1)) >= 0
}

// Orphaned: the position's validator was removed by x/staking while it carried alliance
// delegations of that denom (listed finding F-C05d).
func (x *Exec) Orphaned(v int, denom string) bool {
	return x.RemovedWithStake[fmt.Sprintf("%d|%s", v, denom)]
}

func (x *Exec) Label(l string)    { x.Labels[l]++ }
func (x *Exec) Has(l string) bool { return x.Labels[l] > 0 }

// Fail records a violation and unwinds the case.
func (x *Exec) Fail(prop, oracle, format string, args ...interface{}) {
	v := &Violation{Property: prop, Oracle: oracle, Step: len(x.Log) - 1, Msg: fmt.Sprintf(format, args...)}
	if x.Viol == nil {
		x.Viol = v
	}
	panic(violationPanic{v})
}

// KnownFinding counts a deviation that exactly matches a listed finding.
func (x *Exec) KnownFinding(id string) { x.Known[id]++ }

func parseInt(s string) math.Int {
	i, ok := math.NewIntFromString(s)
	if !ok {
		panic("bad int " + s)
	}
	return i
}

func parseDec(s string) math.LegacyDec {
	if s == "nil" {
		return math.LegacyDec{}
	}
	return math.LegacyMustNewDecFromStr(s)
}

func (x *Exec) signer(s string) string {
	switch s {
	case "auth", "":
		return x.W.Authority
	case "stranger":
		return x.W.Stranger.String()
	case "delegator":
		return x.W.Dels[0].String()
	case "malformed":
		return "cosmos1notanaddress"
	case "empty":
		return ""
	case "module":
		return x.W.ModuleAddr.String()
	}
	return s
}

// natAcc returns the account used for native staking ops.
func (x *Exec) natAcc(i int) sdk.AccAddress {
	if i%2 == 0 {
		return x.W.NativeDel
	}
	return x.W.NativeDel2
}

// tx runs f with baseapp's message semantics: on a cache branch, written only on success.
func (x *Exec) tx(f func(ctx sdk.Context) error) (res Res) {
	cctx, write := x.Ctx.CacheContext()
	em := sdk.NewEventManager()
	cctx = cctx.WithEventManager(em)
	func() {
		defer func() {
			if r := recover(); r != nil {
				if vp, ok := r.(violationPanic); ok {
					panic(vp)
				}
				res.Panic = fmt.Sprintf("%v", r)
				if len(res.Panic) > 300 {
					res.Panic = res.Panic[:300]
				}
				_ = debug.Stack
			}
		}()
		err := f(cctx)
		if err != nil {
			res.Err = err.Error()
			res.err = err
		} else {
			res.OK = true
		}
	}()
	if res.OK {
		write()
		res.Events = em.Events()
	} else if x.OnRejected != nil {
		// the handler's own working state after it refused the request (before baseapp discards it)
		x.OnRejected(cctx, &res)
	}
	return res
}

// direct runs f on the block context itself (no rollback) — slashes and block processing.
func (x *Exec) direct(f func(ctx sdk.Context) error) (res Res) {
	em := sdk.NewEventManager()
	ctx := x.Ctx.WithEventManager(em)
	func() {
		defer func() {
			if r := recover(); r != nil {
				if vp, ok := r.(violationPanic); ok {
					panic(vp)
				}
				res.Panic = fmt.Sprintf("%v", r)
				if len(res.Panic) > 300 {
					res.Panic = res.Panic[:300]
				}
			}
		}()
		err := f(ctx)
		if err != nil {
			res.Err = err.Error()
			res.err = err
		} else {
			res.OK = true
		}
	}()
	res.Events = em.Events()
	return res
}

// Pre returns the snapshot before the current step (lazily computed, cached).
func (x *Exec) Pre() *Snap {
	if x.pre == nil {
		x.pre = TakeSnap(x.W, x.Ctx)
	}
	return x.pre
}

// Post returns the snapshot after the current step.
func (x *Exec) Post() *Snap {
	if x.post == nil {
		x.post = TakeSnap(x.W, x.Ctx)
	}
	return x.post
}

// Apply executes one op with all oracles attached.
func (x *Exec) Apply(op Op) Res {
	if x.Halted != "" {
		return Res{Err: "halted"}
	}
	x.Log = append(x.Log, op)
	curExec = x
	// post of previous step becomes pre of this one
	x.pre, x.post = x.post, nil
	if x.pre == nil {
		x.pre = TakeSnap(x.W, x.Ctx)
	}
	for _, o := range x.Oracles {
		o.Before(x, &op)
	}
	if op.K == KExportImp {
		return x.forkTwin(op)
	}
	res := x.run(&op)
	if x.Twin != nil {
		tr := x.Twin.applyQuiet(op)
		x.TwinRes = &tr
	}
	if res.Panic != "" && (op.K == KSlash || op.K == KSlashHook || op.K == KJail || op.K == KUnjail) {
		// a panic while the staking/slashing/evidence module slashes runs in begin-block: the chain halts
		x.Halted = "panic during slash: " + res.Panic
	}
	x.Ress = append(x.Ress, res)
	x.L.record(x, &op, &res)
	if x.blockHad == nil {
		x.blockHad = map[string]bool{}
	}
	if op.K != KBlock && (res.OK || op.K == KSlash) {
		x.blockHad[op.K] = true
	}
	defer func() {
		if op.K == KBlock {
			x.blockHad = map[string]bool{}
		}
	}()
	if x.Halted != "" {
		// The block in which the chain halts is never committed: only oracles that judge
		// the halt itself (C17) look at it.
		for _, o := range x.Oracles {
			if h, ok := o.(interface {
				AfterHalt(x *Exec, op *Op, res *Res)
			}); ok {
				h.AfterHalt(x, &op, &res)
			}
		}
		return res
	}
	for _, o := range x.Oracles {
		x.guardedAfter(o, &op, &res)
	}
	return res
}

// guardedAfter runs one oracle's After. A query or probe of the oracle can hit a panic of the
// module itself: in an asset whose recorded total went negative (over-withdrawal clause of the
// listed finding F-C04a) token amounts computed from shares are negative and sdk.NewCoin panics,
// also inside gRPC queries. That consequence is counted under the finding and the oracle skips
// the step; any other panic is passed on unchanged.
func (x *Exec) guardedAfter(o Oracle, op *Op, res *Res) {
	defer func() {
		r := recover()
		if r == nil {
			return
		}
		if _, ok := r.(violationPanic); ok {
			panic(r)
		}
		msg := fmt.Sprintf("%v", r)
		if strings.Contains(msg, "negative coin amount") || strings.Contains(msg, "negative decimal coin amount") {
			for _, dn := range x.Post().AssetOrder {
				if x.PrecisionCollapsed(dn) {
					x.KnownFinding("F-C04a")
					x.Label("module-panic-in-oracle-probe:negative-amount-in-collapsed-asset")
					return
				}
			}
		}
		panic(r)
	}()
	o.After(x, op, res)
}

func (x *Exec) End() {
	for _, o := range x.Oracles {
		o.End(x)
	}
}

func (x *Exec) run(op *Op) Res {
	w := x.W
	ak := w.App.AllianceKeeper
	switch op.K {
	case KDelegate:
		return x.tx(func(ctx sdk.Context) error {
			_, err := w.MsgSrv.Delegate(ctx, alliancetypes.NewMsgDelegate(w.delAddr(op.D).String(), w.Vals[op.V].String(), sdk.NewCoin(op.Denom, parseInt(op.Amt))))
			return err
		})
	case KUndelegate:
		r := x.tx(func(ctx sdk.Context) error {
			_, err := w.MsgSrv.Undelegate(ctx, alliancetypes.NewMsgUndelegate(w.delAddr(op.D).String(), w.Vals[op.V].String(), sdk.NewCoin(op.Denom, parseInt(op.Amt))))
			return err
		})
		return r
	case KRedelegate:
		return x.tx(func(ctx sdk.Context) error {
			_, err := w.MsgSrv.Redelegate(ctx, alliancetypes.NewMsgRedelegate(w.delAddr(op.D).String(), w.Vals[op.V].String(), w.Vals[op.W].String(), sdk.NewCoin(op.Denom, parseInt(op.Amt))))
			return err
		})
	case KClaim:
		return x.tx(func(ctx sdk.Context) error {
			_, err := w.MsgSrv.ClaimDelegationRewards(ctx, alliancetypes.NewMsgClaimDelegationRewards(w.delAddr(op.D).String(), w.Vals[op.V].String(), op.Denom))
			return err
		})
	case KClaimAll:
		// every existing delegation claims, each as its own transaction, in store order
		var firstErr Res
		firstErr.OK = true
		var failed []string
		defer func() { x.LastClaimAllFailed = failed }()
		for _, d := range ListDelegations(w, x.Ctx) {
			d := d
			r := x.tx(func(ctx sdk.Context) error {
				_, err := w.MsgSrv.ClaimDelegationRewards(ctx, alliancetypes.NewMsgClaimDelegationRewards(d.DelegatorAddress, d.ValidatorAddress, d.Denom))
				return err
			})
			if !r.OK {
				failed = append(failed, fmt.Sprintf("%d/%d/%s", w.DelIndex(d.DelegatorAddress), w.ValIndex(d.ValidatorAddress), d.Denom))
				if firstErr.OK {
					firstErr = r
				}
			}
		}
		return firstErr
	case KNatDel:
		return x.tx(func(ctx sdk.Context) error {
			_, err := w.StakingMsgSrv.Delegate(ctx, stakingtypes.NewMsgDelegate(x.natAcc(op.D).String(), w.Vals[op.V].String(), sdk.NewCoin(w.BondDenom, parseInt(op.Amt))))
			return err
		})
	case KNatUndel:
		return x.tx(func(ctx sdk.Context) error {
			_, err := w.StakingMsgSrv.Undelegate(ctx, stakingtypes.NewMsgUndelegate(x.natAcc(op.D).String(), w.Vals[op.V].String(), sdk.NewCoin(w.BondDenom, parseInt(op.Amt))))
			return err
		})
	case KNatRedel:
		return x.tx(func(ctx sdk.Context) error {
			_, err := w.StakingMsgSrv.BeginRedelegate(ctx, stakingtypes.NewMsgBeginRedelegate(x.natAcc(op.D).String(), w.Vals[op.V].String(), w.Vals[op.W].String(), sdk.NewCoin(w.BondDenom, parseInt(op.Amt))))
			return err
		})
	case KDonate:
		return x.tx(func(ctx sdk.Context) error {
			coins := sdk.NewCoins(sdk.NewCoin(op.Denom, parseInt(op.Amt)))
			// the donor is funded by the harness, then sends through the bank like any user
			w.mintTo(ctx, w.Stranger, coins)
			return w.App.BankKeeper.SendCoins(ctx, w.Stranger, w.ModuleAddr, coins)
		})
	case KSlashHook:
		return x.direct(func(ctx sdk.Context) error {
			return ak.StakingHooks().BeforeValidatorSlashed(ctx, w.Vals[op.V], parseDec(op.Frac))
		})
	case KSlash:
		return x.direct(func(ctx sdk.Context) error {
			h := ctx.BlockHeight() - op.Age
			if h < 0 {
				h = 0
			}
			_, err := w.App.StakingKeeper.Slash(ctx, w.ValCons[op.V], h, op.Power, parseDec(op.Frac))
			if err != nil {
				return err
			}
			if op.Jail {
				val, err := w.App.StakingKeeper.GetValidator(ctx, w.Vals[op.V])
				if err == nil && !val.Jailed {
					return w.App.StakingKeeper.Jail(ctx, w.ValCons[op.V])
				}
			}
			return nil
		})
	case KJail:
		return x.direct(func(ctx sdk.Context) error {
			val, err := w.App.StakingKeeper.GetValidator(ctx, w.Vals[op.V])
			if err != nil {
				return err
			}
			if val.Jailed {
				return fmt.Errorf("already jailed")
			}
			return w.App.StakingKeeper.Jail(ctx, w.ValCons[op.V])
		})
	case KUnjail:
		return x.direct(func(ctx sdk.Context) error {
			val, err := w.App.StakingKeeper.GetValidator(ctx, w.Vals[op.V])
			if err != nil {
				return err
			}
			if !val.Jailed {
				return fmt.Errorf("not jailed")
			}
			return w.App.StakingKeeper.Unjail(ctx, w.ValCons[op.V])
		})
	case KCreate:
		return x.tx(func(ctx sdk.Context) error {
			rng := alliancetypes.RewardWeightRange{Min: parseDec(op.RWMin), Max: parseDec(op.RWMax)}
			if op.Legacy {
				return legacyProposal(ctx, ak, &alliancetypes.MsgCreateAllianceProposal{
					Title: "t", Description: "d", Denom: op.Denom, RewardWeight: parseDec(op.RW), RewardWeightRange: rng,
					TakeRate: parseDec(op.TakeRate), RewardChangeRate: parseDec(op.ChRate), RewardChangeInterval: time.Duration(op.ChInt)})
			}
			_, err := w.MsgSrv.CreateAlliance(ctx, &alliancetypes.MsgCreateAlliance{
				Authority: x.signer(op.Signer), Denom: op.Denom, RewardWeight: parseDec(op.RW), RewardWeightRange: rng,
				TakeRate: parseDec(op.TakeRate), RewardChangeRate: parseDec(op.ChRate), RewardChangeInterval: time.Duration(op.ChInt)})
			return err
		})
	case KUpdate:
		return x.tx(func(ctx sdk.Context) error {
			rng := alliancetypes.RewardWeightRange{Min: parseDec(op.RWMin), Max: parseDec(op.RWMax)}
			if op.Legacy {
				return legacyProposal(ctx, ak, &alliancetypes.MsgUpdateAllianceProposal{
					Title: "t", Description: "d", Denom: op.Denom, RewardWeight: parseDec(op.RW), RewardWeightRange: rng,
					TakeRate: parseDec(op.TakeRate), RewardChangeRate: parseDec(op.ChRate), RewardChangeInterval: time.Duration(op.ChInt)})
			}
			_, err := w.MsgSrv.UpdateAlliance(ctx, &alliancetypes.MsgUpdateAlliance{
				Authority: x.signer(op.Signer), Denom: op.Denom, RewardWeight: parseDec(op.RW), RewardWeightRange: rng,
				TakeRate: parseDec(op.TakeRate), RewardChangeRate: parseDec(op.ChRate), RewardChangeInterval: time.Duration(op.ChInt)})
			return err
		})
	case KDelete:
		return x.tx(func(ctx sdk.Context) error {
			if op.Legacy {
				return legacyProposal(ctx, ak, &alliancetypes.MsgDeleteAllianceProposal{Title: "t", Description: "d", Denom: op.Denom})
			}
			_, err := w.MsgSrv.DeleteAlliance(ctx, &alliancetypes.MsgDeleteAlliance{Authority: x.signer(op.Signer), Denom: op.Denom})
			return err
		})
	case KParams:
		return x.tx(func(ctx sdk.Context) error {
			cur := ak.GetParams(ctx)
			_, err := w.MsgSrv.UpdateParams(ctx, &alliancetypes.MsgUpdateParams{Authority: x.signer(op.Signer), Params: alliancetypes.Params{
				RewardDelayTime: time.Duration(op.Delay), TakeRateClaimInterval: time.Duration(op.Interval), LastTakeRateClaimTime: cur.LastTakeRateClaimTime}})
			return err
		})
	case KUnbTime:
		return x.tx(func(ctx sdk.Context) error {
			p, err := w.App.StakingKeeper.GetParams(ctx)
			if err != nil {
				return err
			}
			p.UnbondingTime = time.Duration(op.Dt)
			return w.App.StakingKeeper.SetParams(ctx, p)
		})
	case KMaxVals:
		return x.tx(func(ctx sdk.Context) error {
			p, err := w.App.StakingKeeper.GetParams(ctx)
			if err != nil {
				return err
			}
			p.MaxValidators = uint32(op.N)
			return w.App.StakingKeeper.SetParams(ctx, p)
		})
	case KExportImp:
		return x.direct(func(ctx sdk.Context) error {
			return ExportImport(w, ctx)
		})
	case KReimport:
		return x.tx(func(ctx sdk.Context) error {
			return ExportImport(w, ctx)
		})
	case KValExit:
		// each holder's undelegation is its own transaction; ok when at least one was accepted
		holders := []sdk.AccAddress{w.ValOpAcc[op.V], w.GenAcc, w.NativeDel, w.NativeDel2}
		out := Res{Err: "no native delegation to remove"}
		for _, h := range holders {
			h := h
			r := x.tx(func(ctx sdk.Context) error {
				del, err := w.App.StakingKeeper.GetDelegation(ctx, h, w.Vals[op.V])
				if err != nil {
					return err
				}
				val, err := w.App.StakingKeeper.GetValidator(ctx, w.Vals[op.V])
				if err != nil {
					return err
				}
				tok := val.TokensFromShares(del.Shares).TruncateInt()
				if !tok.IsPositive() {
					return fmt.Errorf("delegation worth nothing")
				}
				_, err = w.StakingMsgSrv.Undelegate(ctx, stakingtypes.NewMsgUndelegate(h.String(), w.Vals[op.V].String(), sdk.NewCoin(w.BondDenom, tok)))
				return err
			})
			if r.OK {
				if !out.OK {
					out = r
				} else {
					out.Events = append(out.Events, r.Events...)
				}
			} else if r.Panic != "" && !out.OK {
				out = r
			}
		}
		return out
	case KValCreate:
		return x.tx(func(ctx sdk.Context) error {
			msg, err := stakingtypes.NewMsgCreateValidator(w.Vals[op.V].String(), w.ValPub[op.V],
				sdk.NewCoin(w.BondDenom, parseInt(op.Amt)), stakingtypes.Description{Moniker: fmt.Sprintf("v%d-again", op.V)},
				stakingtypes.NewCommissionRates(parseDec(op.Frac), math.LegacyOneDec(), math.LegacyOneDec()), math.OneInt())
			if err != nil {
				return err
			}
			_, err = w.StakingMsgSrv.CreateValidator(ctx, msg)
			return err
		})
	case KBlock:
		return x.nextBlock(op)
	}
	panic("unknown op kind " + op.K)
}

// legacyProposal is the path of a legacy governance proposal: x/gov validates the content when the
// proposal is submitted (Content.ValidateBasic) and runs the module's handler when it passes.
func legacyProposal(ctx sdk.Context, ak alliancekeeper.Keeper, content govv1beta1.Content) error {
	if err := content.ValidateBasic(); err != nil {
		return err
	}
	return alliance.NewAllianceProposalHandler(ak)(ctx, content)
}

func (w *World) delAddr(i int) sdk.AccAddress {
	if i == 100 {
		return w.Probe
	}
	return w.Dels[i]
}

// nextBlock = end of the current block (staking end-blocker, alliance end-blocker,
// in the application's module order) followed by the start of the next one
// (time/height advance, fees minted to the fee collector, x/distribution allocation).
func (x *Exec) nextBlock(op *Op) Res {
	w := x.W
	var out Res
	// The end-blockers run through the application's module manager, in the order app.go
	// configures (x/crisis, whose only job is to assert invariants every n blocks, is left out):
	// the relative order of staking (validator-set update) and alliance (rebalance) and the
	// module's own EndBlock wiring are part of what is under test.
	x.MidSnap = nil
	mm := w.App.ModuleManager
	for _, name := range mm.OrderEndBlockers {
		if name == crisistypes.ModuleName {
			continue
		}
		mod, ok := mm.Modules[name]
		if !ok {
			continue
		}
		if name == alliancetypes.ModuleName {
			x.MidSnap = TakeSnap(w, x.Ctx) // state the alliance end-blocker starts from
		}
		r := x.direct(func(ctx sdk.Context) error {
			if m, ok := mod.(appmodule.HasEndBlocker); ok {
				return m.EndBlock(ctx)
			}
			if m, ok := mod.(module.HasABCIEndBlock); ok {
				_, err := m.EndBlock(ctx)
				return err
			}
			return nil
		})
		out.Events = append(out.Events, r.Events...)
		if r.OK {
			continue
		}
		switch name {
		case alliancetypes.ModuleName:
			out.AllianceEBErr = r.Err + r.Panic
			out.Panic = r.Panic
			out.Err = r.Err
			x.Halted = "alliance end-blocker: " + out.AllianceEBErr
		default:
			out.StakingEBErr = name + ": " + r.Err + r.Panic
			x.Halted = name + " end-blocker: " + r.Err + r.Panic
			out.Err = x.Halted
		}
		if x.MidSnap == nil {
			x.MidSnap = TakeSnap(w, x.Ctx)
		}
		return out
	}
	if x.MidSnap == nil {
		x.MidSnap = TakeSnap(w, x.Ctx)
	}
	x.LastEndTime = x.Ctx.BlockTime()
	x.EndSnap = TakeSnap(w, x.Ctx)
	x.endOfBlock() // hook for oracles wanting the state exactly at the block boundary
	// advance
	x.Ctx = x.Ctx.WithBlockTime(x.Ctx.BlockTime().Add(time.Duration(op.Dt))).WithBlockHeight(x.Ctx.BlockHeight() + 1)
	r3 := x.direct(func(ctx sdk.Context) error {
		if op.Fees != "" {
			fees, err := sdk.ParseCoinsNormalized(op.Fees)
			if err != nil {
				return err
			}
			if err := w.App.BankKeeper.MintCoins(ctx, minttypes.ModuleName, fees); err != nil {
				return err
			}
			if err := w.App.BankKeeper.SendCoinsFromModuleToModule(ctx, minttypes.ModuleName, "fee_collector", fees); err != nil {
				return err
			}
		}
		// The votes a block carries are those of the validator set that signed the previous block;
		// validator-set changes decided by the end-blocker of block H take effect at block H+2
		// (CometBFT). So the allocation at the start of block H+1 goes to the set in force after the
		// end-blocker of block H-2: a validator that was jailed or left the set keeps earning for
		// two more blocks.
		cur := map[int]int64{}
		err := w.App.StakingKeeper.IterateLastValidatorPowers(ctx, func(addr sdk.ValAddress, power int64) bool {
			if i := w.ValIndex(addr.String()); i >= 0 {
				cur[i] = power
			}
			return false
		})
		if err != nil {
			return err
		}
		x.powerHist = append(x.powerHist, cur)
		signers := x.powerHist[0]
		if n := len(x.powerHist); n >= 3 {
			signers = x.powerHist[n-3]
			x.powerHist = x.powerHist[n-3:]
		}
		var votes []abci.VoteInfo
		total := int64(0)
		for i := range w.Vals {
			if p, ok := signers[i]; ok {
				// (a validator removed within two blocks of leaving the set — only possible with the
				// nanosecond unbonding times of the menus — would make x/distribution fail; not a
				// state a chain with a sane unbonding time reaches)
				if _, err := w.App.StakingKeeper.GetValidator(ctx, w.Vals[i]); err != nil {
					continue
				}
				votes = append(votes, abci.VoteInfo{Validator: abci.Validator{Address: w.ValCons[i], Power: p}})
				total += p
			}
		}
		return w.App.DistrKeeper.AllocateTokens(ctx, total, votes)
	})
	out.Events = append(out.Events, r3.Events...)
	if !r3.OK {
		x.Halted = "begin-block: " + r3.Err + r3.Panic
		out.Err = x.Halted
		return out
	}
	out.OK = true
	return out
}

// endOfBlock is called after both end-blockers and before time advances.
func (x *Exec) endOfBlock() {
	for _, o := range x.Oracles {
		if e, ok := o.(interface{ EndOfBlock(x *Exec) }); ok {
			e.EndOfBlock(x)
		}
	}
}

// ErrLog is one Error-level log line emitted while executing a step.
type ErrLog struct {
	Step   int
	Msg    string
	Detail string
}

// capLogger captures Error-level log lines; x/staking only logs (and swallows) errors
// returned by slashing callbacks, so the log is the public channel that reveals them.
type capLogger struct {
	x *Exec
}

func (c *capLogger) Info(string, ...any)  {}
func (c *capLogger) Warn(string, ...any)  {}
func (c *capLogger) Debug(string, ...any) {}
func (c *capLogger) Error(msg string, kv ...any) {
	d := ""
	for i := 0; i+1 < len(kv); i += 2 {
		if k, ok := kv[i].(string); ok && k == "error" {
			d = fmt.Sprintf("%v", kv[i+1])
		}
	}
	c.x.ErrLogs = append(c.x.ErrLogs, ErrLog{Step: len(c.x.Log) - 1, Msg: msg, Detail: d})
}
func (c *capLogger) With(...any) log.Logger { return c }
func (c *capLogger) Impl() any              { return c }

// ---- small helpers shared by oracles and generators ----

func ListDelegations(w *World, ctx sdk.Context) []alliancetypes.Delegation {
	var out []alliancetypes.Delegation
	_ = w.App.AllianceKeeper.IterateDelegations(ctx, func(d alliancetypes.Delegation) bool {
		out = append(out, d)
		return false
	})
	return out
}

func sortedKeys[V any](m map[string]V) []string {
	ks := make([]string, 0, len(m))
	for k := range m {
		ks = append(ks, k)
	}
	sort.Strings(ks)
	return ks
}

func coinsStr(c sdk.Coins) string { return c.String() }

func parseCoins(s string) (sdk.Coins, error) { return sdk.ParseCoinsNormalized(s) }

var _ = strings.Contains

// applyQuiet executes an op without oracles (used for the C18 twin and C19 replays).
func (x *Exec) applyQuiet(op Op) Res {
	if x.Halted != "" {
		return Res{Err: "halted"}
	}
	x.Log = append(x.Log, op)
	x.pre, x.post = x.post, nil
	if x.pre == nil {
		x.pre = TakeSnap(x.W, x.Ctx)
	}
	res := x.run(&op)
	if res.Panic != "" && (op.K == KSlash || op.K == KSlashHook || op.K == KJail || op.K == KUnjail) {
		x.Halted = "panic during slash: " + res.Panic
	}
	x.Ress = append(x.Ress, res)
	x.L.record(x, &op, &res)
	return res
}

// forkTwin (op export_import): from the current state two sibling branches are made. The
// original continues on one; on the other every alliance key is deleted and the module is
// re-initialised from the export.
func (x *Exec) forkTwin(op Op) Res {
	base := x.Ctx
	a, _ := base.CacheContext()
	b, _ := base.CacheContext()
	x.Ctx = a.WithEventManager(sdk.NewEventManager()).WithLogger(&capLogger{x: x})
	t := &Exec{W: x.W, Labels: map[string]int{}, Known: map[string]int{}, ErrOverTol: map[string]float64{}}
	t.Ctx = b.WithEventManager(sdk.NewEventManager())
	t.Ctx = t.Ctx.WithLogger(&capLogger{x: t})
	t.L = x.L.clone()
	t.LastEndTime = x.LastEndTime
	t.powerHist = append([]map[int]int64{}, x.powerHist...)
	t.Log = append([]Op{}, x.Log...)
	t.Ress = append([]Res{}, x.Ress...)
	res := Res{OK: true}
	func() {
		defer func() {
			if r := recover(); r != nil {
				res = Res{Panic: fmt.Sprintf("%v", r)}
			}
		}()
		x.ExportA = x.W.App.AppCodec().MustMarshalJSON(x.W.App.AllianceKeeper.ExportGenesis(x.Ctx))
		if err := ExportImport(x.W, t.Ctx); err != nil {
			res = Res{Err: err.Error()}
			return
		}
		x.ExportB = x.W.App.AppCodec().MustMarshalJSON(x.W.App.AllianceKeeper.ExportGenesis(t.Ctx))
	}()
	t.Ress = append(t.Ress, res)
	x.Twin = t
	x.TwinRes = &res
	x.Ress = append(x.Ress, res)
	x.L.record(x, &op, &res)
	for _, o := range x.Oracles {
		o.After(x, &op, &res)
	}
	return res
}
