package harness

// world.go — deterministic construction of the system under test: the real
// application from /repo (app.App) with one genesis validator plus validators
// created by MsgCreateValidator, funded delegators and a probe account.

import (
	"fmt"
	"testing"
	"time"

	"cosmossdk.io/math"
	abci "github.com/cometbft/cometbft/abci/types"
	tmtypes "github.com/cometbft/cometbft/types"
	cryptocodec "github.com/cosmos/cosmos-sdk/crypto/codec"
	"github.com/cosmos/cosmos-sdk/crypto/keys/ed25519"
	"github.com/cosmos/cosmos-sdk/crypto/keys/secp256k1"
	cryptotypes "github.com/cosmos/cosmos-sdk/crypto/types"
	sdk "github.com/cosmos/cosmos-sdk/types"
	authtypes "github.com/cosmos/cosmos-sdk/x/auth/types"
	banktypes "github.com/cosmos/cosmos-sdk/x/bank/types"
	distrtypes "github.com/cosmos/cosmos-sdk/x/distribution/types"
	govtypes "github.com/cosmos/cosmos-sdk/x/gov/types"
	minttypes "github.com/cosmos/cosmos-sdk/x/mint/types"
	stakingkeeper "github.com/cosmos/cosmos-sdk/x/staking/keeper"
	stakingtypes "github.com/cosmos/cosmos-sdk/x/staking/types"

	"github.com/terra-money/alliance/app"
	alliancekeeper "github.com/terra-money/alliance/x/alliance/keeper"
	alliancetypes "github.com/terra-money/alliance/x/alliance/types"
)

const (
	NumVals = 5
	NumDels = 4
	// FeeDenom is a non-staking, non-alliance denomination used for fees.
	FeeDenom = "ufee"
)

// BaseTime is the fixed block time of the base state. The wall clock is never read.
var BaseTime = time.Date(2030, 1, 1, 0, 0, 0, 0, time.UTC)

// AssetDenoms is the fixed menu of denominations that governance may whitelist.
// Two pairs are related on purpose: "eth18" is a proper tail of "weth18", and "aaa" is both a
// head and a tail of "aaaa" — key builders that forget a length prefix confuse such denominations.
var AssetDenoms = []string{"aaa", "ibc/4A5B6C7D8E9F0A1B2C3D4E5F6A7B8C9D0E1F2A3B4C5D6E7F8A9B0C1D2E3F4A5B", "weth18", "eth18", "aaaa"}

type World struct {
	BaseTime   time.Time
	App        *app.App
	Base       sdk.Context
	Vals       []sdk.ValAddress
	ValCons    []sdk.ConsAddress
	ValOpAcc   []sdk.AccAddress
	ValPub     []cryptotypes.PubKey // consensus keys (a removed validator can be created again with the same key)
	Dels       []sdk.AccAddress
	Probe      sdk.AccAddress
	Stranger   sdk.AccAddress // a valid address that is not the authority
	NativeDel  sdk.AccAddress // native staker used for native staking ops
	NativeDel2 sdk.AccAddress
	GenAcc     sdk.AccAddress // genesis account (delegator of validator 0's genesis stake)
	Authority  string
	BondDenom  string

	ModuleAddr    sdk.AccAddress
	RewardsAddr   sdk.AccAddress
	FeeCollector  sdk.AccAddress
	BondedPool    sdk.AccAddress
	NotBondedPool sdk.AccAddress
	DistrAddr     sdk.AccAddress

	MsgSrv        alliancetypes.MsgServer
	StakingMsgSrv stakingtypes.MsgServer
	Query         alliancetypes.QueryServer
}

func detAddr(tag string) sdk.AccAddress {
	return sdk.AccAddress(secp256k1.GenPrivKeyFromSecret([]byte("verif-" + tag)).PubKey().Address())
}

func mustOK(err error) {
	if err != nil {
		panic(err)
	}
}

// mintTo creates coins (through the mint module account, as the repo's own test
// helpers do) and gives them to addr.
func (w *World) mintTo(ctx sdk.Context, addr sdk.AccAddress, coins sdk.Coins) {
	mustOK(w.App.BankKeeper.MintCoins(ctx, minttypes.ModuleName, coins))
	mustOK(w.App.BankKeeper.SendCoinsFromModuleToAccount(ctx, minttypes.ModuleName, addr, coins))
}

var bigFund, _ = math.NewIntFromString("1000000000000000000000000000000000000") // 1e36

// NewWorld builds the base state. It is called once per process.
func NewWorld(t *testing.T) *World { return NewWorldAt(t, BaseTime) }

// NewWorldAt builds the same base state at another base block time (time-translation leg of C19).
func NewWorldAt(t *testing.T, base time.Time) *World {
	t.Helper()
	w := &World{BaseTime: base}

	// one genesis validator with a fixed key
	pv := ed25519.GenPrivKeyFromSecret([]byte("verif-genval-0"))
	cmtPub, err := cryptocodec.ToCmtPubKeyInterface(pv.PubKey())
	mustOK(err)
	validator := tmtypes.NewValidator(cmtPub, 1)
	valSet := tmtypes.NewValidatorSet([]*tmtypes.Validator{validator})

	genPriv := secp256k1.GenPrivKeyFromSecret([]byte("verif-genacc"))
	acc := authtypes.NewBaseAccount(genPriv.PubKey().Address().Bytes(), genPriv.PubKey(), 0, 0)
	balance := banktypes.Balance{
		Address: acc.GetAddress().String(),
		Coins:   sdk.NewCoins(sdk.NewCoin(sdk.DefaultBondDenom, math.NewInt(100_000_000_000_000))),
	}
	w.App = app.SetupWithGenesisValSet(t, valSet, []authtypes.GenesisAccount{acc}, balance)
	ctx := w.App.NewContext(true).WithBlockTime(base).WithBlockHeight(2).
		WithEventManager(sdk.NewEventManager())
	ctx = ctx.WithVoteInfos([]abci.VoteInfo{})

	w.BondDenom, err = w.App.StakingKeeper.BondDenom(ctx)
	mustOK(err)
	w.Authority = authtypes.NewModuleAddress(govtypes.ModuleName).String()
	w.ModuleAddr = w.App.AccountKeeper.GetModuleAddress(alliancetypes.ModuleName)
	w.RewardsAddr = w.App.AccountKeeper.GetModuleAddress(alliancetypes.RewardsPoolName)
	w.FeeCollector = w.App.AccountKeeper.GetModuleAddress(authtypes.FeeCollectorName)
	w.BondedPool = w.App.AccountKeeper.GetModuleAddress(stakingtypes.BondedPoolName)
	w.NotBondedPool = w.App.AccountKeeper.GetModuleAddress(stakingtypes.NotBondedPoolName)
	w.DistrAddr = w.App.AccountKeeper.GetModuleAddress(distrtypes.ModuleName)
	w.MsgSrv = alliancekeeper.NewMsgServerImpl(w.App.AllianceKeeper)
	w.StakingMsgSrv = stakingkeeper.NewMsgServerImpl(w.App.StakingKeeper)
	w.Query = alliancekeeper.NewQueryServerImpl(w.App.AllianceKeeper)

	// community tax to zero so that distribution arithmetic is only commission + pro-rata
	dp, err := w.App.DistrKeeper.Params.Get(ctx)
	mustOK(err)
	dp.CommunityTax = math.LegacyZeroDec()
	mustOK(w.App.DistrKeeper.Params.Set(ctx, dp))

	// genesis validator
	w.Vals = append(w.Vals, sdk.ValAddress(validator.Address))
	w.ValCons = append(w.ValCons, sdk.ConsAddress(validator.Address))
	w.ValOpAcc = append(w.ValOpAcc, sdk.AccAddress(validator.Address))
	w.ValPub = append(w.ValPub, pv.PubKey())

	// further validators through the real message handler
	selfStake := []int64{0, 2_000_000, 3_000_000, 5_000_000, 1_500_000}
	commission := []string{"0", "0", "0.1", "1", "0.05"}
	for i := 1; i < NumVals; i++ {
		op := detAddr(fmt.Sprintf("valop-%d", i))
		w.mintTo(ctx, op, sdk.NewCoins(sdk.NewCoin(w.BondDenom, math.NewInt(selfStake[i]))))
		pk := ed25519.GenPrivKeyFromSecret([]byte(fmt.Sprintf("verif-valcons-%d", i))).PubKey()
		rate := math.LegacyMustNewDecFromStr(commission[i])
		msg, err := stakingtypes.NewMsgCreateValidator(
			sdk.ValAddress(op).String(), pk,
			sdk.NewCoin(w.BondDenom, math.NewInt(selfStake[i])),
			stakingtypes.Description{Moniker: fmt.Sprintf("v%d", i)},
			stakingtypes.NewCommissionRates(rate, math.LegacyOneDec(), math.LegacyOneDec()),
			math.OneInt())
		mustOK(err)
		_, err = w.StakingMsgSrv.CreateValidator(ctx, msg)
		mustOK(err)
		w.Vals = append(w.Vals, sdk.ValAddress(op))
		w.ValCons = append(w.ValCons, sdk.ConsAddress(pk.Address()))
		w.ValOpAcc = append(w.ValOpAcc, op)
		w.ValPub = append(w.ValPub, pk)
	}
	_, err = w.App.StakingKeeper.EndBlocker(ctx)
	mustOK(err)
	for i, v := range w.Vals {
		val, err := w.App.StakingKeeper.GetValidator(ctx, v)
		mustOK(err)
		if !val.IsBonded() {
			panic(fmt.Sprintf("validator %d not bonded in base state", i))
		}
	}

	// delegators, probe, stranger, native delegator
	fund := sdk.NewCoins()
	for _, d := range AssetDenoms {
		fund = fund.Add(sdk.NewCoin(d, bigFund))
	}
	for i := 0; i < NumDels; i++ {
		a := detAddr(fmt.Sprintf("del-%d", i))
		w.mintTo(ctx, a, fund)
		w.Dels = append(w.Dels, a)
	}
	w.Probe = detAddr("probe")
	w.mintTo(ctx, w.Probe, fund)
	w.Stranger = detAddr("stranger")
	w.mintTo(ctx, w.Stranger, sdk.NewCoins(sdk.NewCoin(FeeDenom, math.NewInt(1))))
	w.GenAcc = acc.GetAddress()
	w.NativeDel2 = detAddr("native2")
	w.mintTo(ctx, w.NativeDel2, sdk.NewCoins(sdk.NewCoin(w.BondDenom, math.NewInt(1_000_000_000_000))))
	w.NativeDel = detAddr("native")
	w.mintTo(ctx, w.NativeDel, sdk.NewCoins(sdk.NewCoin(w.BondDenom, math.NewInt(1_000_000_000_000))))

	// operators hold spare staking tokens so that a validator that left can be created again
	for _, op := range w.ValOpAcc {
		w.mintTo(ctx, op, sdk.NewCoins(sdk.NewCoin(w.BondDenom, math.NewInt(1_000_000_000_000))))
	}

	// alliance params start from defaults with a fixed clock (zero time: set on first block)
	mustOK(w.App.AllianceKeeper.SetParams(ctx, alliancetypes.DefaultParams()))

	w.Base = ctx
	return w
}

// Branch returns a fresh, isolated copy-on-write context of the base state.
func (w *World) Branch() sdk.Context {
	c, _ := w.Base.CacheContext()
	return c.WithEventManager(sdk.NewEventManager())
}

func (w *World) ValIndex(addr string) int {
	for i, v := range w.Vals {
		if v.String() == addr {
			return i
		}
	}
	return -1
}

func (w *World) DelIndex(addr string) int {
	for i, d := range w.Dels {
		if d.String() == addr {
			return i
		}
	}
	if w.Probe.String() == addr {
		return 100
	}
	return -1
}
