package harness

// oracle_reward.go — C12 (reward pool solvency) and C13 (reward entitlement).

import (
	"fmt"
	"math/big"
	"os"
	"regexp"
	"sort"
	"strings"

	"cosmossdk.io/math"
	sdk "github.com/cosmos/cosmos-sdk/types"

	alliancetypes "github.com/terra-money/alliance/x/alliance/types"
)

// pendingRewards measures, per validator, what x/distribution would pay the module
// account right now — by withdrawing on a throw-away branch.
func pendingRewards(w *World, ctx sdk.Context) []sdk.Coins {
	return pendingRewardsOf(w, ctx, nil)
}

// pendingRewardsOf measures only the validators selected by want (nil: all).
func pendingRewardsOf(w *World, ctx sdk.Context, want func(v int) bool) []sdk.Coins {
	out := make([]sdk.Coins, len(w.Vals))
	for i, v := range w.Vals {
		out[i] = sdk.NewCoins()
		if want != nil && !want(i) {
			continue
		}
		if _, err := w.App.StakingKeeper.GetDelegation(ctx, w.ModuleAddr, v); err != nil {
			continue
		}
		c, _ := ctx.CacheContext()
		func() {
			defer func() { _ = recover() }()
			coins, err := w.App.DistrKeeper.WithdrawDelegationRewards(c, w.ModuleAddr, v)
			if err == nil {
				out[i] = coins
			}
		}()
	}
	return out
}

// settledByCallback returns the destination positions whose rewards the slash callback
// has just claimed (pending redelegations out of the slashed validator), and checks
// that nothing is claimable for them right afterwards: a claim is idempotent, the
// callback must not re-create an entitlement it has just paid.
func checkCallbackClaimsIdempotent(x *Exec, prop string, op *Op) {
	if x.L.LastSlashFrac == nil || x.L.LastSlashHookErr != "" {
		return
	}
	pre, post := x.Pre(), x.Post()
	w := x.W
	seen := map[string]bool{}
	for _, r := range x.L.Redel {
		if r.S != op.V || r.Completion.Before(pre.Time) {
			continue
		}
		d, ok := post.FindDel(r.D, r.T, r.Denom)
		if !ok || seen[d.Key()] {
			continue
		}
		seen[d.Key()] = true
		a, ok := post.Assets[r.Denom]
		if !ok || post.Time.Before(a.RewardStartTime) {
			continue
		}
		if _, ok := pre.FindDel(r.D, r.T, r.Denom); !ok {
			continue
		}
		c, _ := x.Ctx.CacheContext()
		addr := sdk.MustAccAddressFromBech32(d.Del)
		b0 := w.App.BankKeeper.GetAllBalances(c, addr)
		var err error
		func() {
			defer func() {
				if rc := recover(); rc != nil {
					err = fmt.Errorf("panic: %v", rc)
				}
			}()
			_, err = w.MsgSrv.ClaimDelegationRewards(c, alliancetypes.NewMsgClaimDelegationRewards(d.Del, d.Val, d.Denom))
		}()
		if err != nil {
			continue
		}
		b1 := w.App.BankKeeper.GetAllBalances(c, addr)
		x.Label(strings.ToLower(prop) + ":callback-claim-idempotence-probed")
		if !b1.Equal(b0) {
			got, _ := b1.SafeSub(b0...)
			x.Fail(prop, "idempotent", "the slash callback has just settled the rewards of position %s, yet an immediate claim pays %s again", d.Key(), got)
		}
	}
}

// ---------- C13 ----------

type entKey struct {
	D, V  int
	Denom string
}

// accrual is what x/distribution credited to the module for one validator at one block
// start, together with the positions existing at that moment.
type accrual struct {
	coins  sdk.Coins
	frac   map[string]map[entKey]*big.Rat // asset -> position -> share of the validator's delegator shares
	weight map[string]*big.Rat            // asset -> reward weight when the rewards accrued
	warm   map[string]bool                // assets staked on the validator that were still in warm-up when the rewards accrued
}

type OracleC13 struct {
	ent        map[entKey]map[string]*big.Rat // settled-into-the-pool, unclaimed entitlement per position and reward denom
	slack      map[entKey]map[string]*big.Rat // tolerance accumulated with the entitlement
	acc        map[int][]accrual              // accrued in x/distribution, not yet withdrawn by the module
	preBlock   []sdk.Coins
	prePending []sdk.Coins
	// tainted positions: a value-changing event (slash, take-rate deduction) happened while
	// they had accrued but unclaimed rewards; their next settlement is C12's business
	tainted  map[entKey]bool
	taintVal map[int]bool
}

func NewOracleC13() *OracleC13 {
	return &OracleC13{ent: map[entKey]map[string]*big.Rat{}, slack: map[entKey]map[string]*big.Rat{}, acc: map[int][]accrual{}, tainted: map[entKey]bool{}, taintVal: map[int]bool{}}
}

func (*OracleC13) Name() string { return "C13" }
func (*OracleC13) End(x *Exec)  {}
func (o *OracleC13) Before(x *Exec, op *Op) {
	o.prePending = pendingRewards(x.W, x.Ctx)
}

// EndOfBlock: pending rewards at the block boundary, before the next block's allocation.
func (o *OracleC13) EndOfBlock(x *Exec) {
	o.preBlock = pendingRewards(x.W, x.Ctx)
}

func addTo(m map[entKey]map[string]*big.Rat, k entKey, denom string, v *big.Rat) {
	if m[k] == nil {
		m[k] = map[string]*big.Rat{}
	}
	if m[k][denom] == nil {
		m[k][denom] = new(big.Rat)
	}
	m[k][denom].Add(m[k][denom], v)
}

func eligibleAsset(s *Snap, v int, dn string) bool {
	a, ok := s.Assets[dn]
	if !ok || s.Time.Before(a.RewardStartTime) || a.TotalTokens.IsZero() || a.TotalValidatorShares.IsZero() {
		return false
	}
	vs, ok := s.Vals[v].ValShares[dn]
	if !ok || !vs.IsPositive() {
		return false
	}
	tds, ok := s.Vals[v].DelShares[dn]
	return ok && tds.IsPositive()
}

// accrue records the rewards that x/distribution credited to the module for validator v
// at the start of a block, with the positions (and their shares) existing at that moment:
// rewards that accrued before a position existed or grew are not payable to the new stake.
func (o *OracleC13) accrue(x *Exec, s *Snap, v int, coins sdk.Coins) {
	a := accrual{coins: coins, frac: map[string]map[entKey]*big.Rat{}, weight: map[string]*big.Rat{}, warm: map[string]bool{}}
	n := 0
	for _, dn := range s.AssetOrder {
		if !eligibleAsset(s, v, dn) {
			if as := s.Assets[dn]; s.Time.Before(as.RewardStartTime) {
				if vs, ok := s.Vals[v].ValShares[dn]; ok && vs.IsPositive() {
					a.warm[dn] = true
				}
			}
			continue
		}
		tds := decRat(s.Vals[v].DelShares[dn])
		a.frac[dn] = map[entKey]*big.Rat{}
		a.weight[dn] = decRat(s.Assets[dn].RewardWeight)
		for _, d := range s.Dels {
			if d.V == v && d.Denom == dn {
				a.frac[dn][entKey{d.D, d.V, d.Denom}] = new(big.Rat).Quo(decRat(d.Shares), tds)
				n++
			}
		}
	}
	if n >= 2 {
		x.Label("c13:accrual-shared-by>=2-positions")
	}
	o.acc[v] = append(o.acc[v], a)
}

// deposit: the module withdrew validator v's pending rewards in a step whose pre-state is
// s. The split among assets follows the state at that moment (weight x share of the asset
// staked on v, normalised over started assets staked on v); within an asset each accrual
// goes to the positions that existed when it accrued.
func (o *OracleC13) deposit(x *Exec, s *Snap, v int) {
	accs := o.acc[v]
	delete(o.acc, v)
	if o.taintVal[v] {
		delete(o.taintVal, v)
		for _, d := range s.Dels {
			if d.V == v {
				o.tainted[entKey{d.D, d.V, d.Denom}] = true
			}
		}
		return
	}
	if len(accs) == 0 {
		return
	}
	// share of each asset staked on v, from the state in which the module withdraws
	shareOnV := map[string]*big.Rat{}
	for _, dn := range s.AssetOrder {
		if !eligibleAsset(s, v, dn) {
			continue
		}
		a := s.Assets[dn]
		shareOnV[dn] = new(big.Rat).Quo(decRat(s.Vals[v].ValShares[dn]), decRat(a.TotalValidatorShares))
	}
	for _, ac := range accs {
		// Listed finding F-C14a: rewards are settled lazily and nothing settles a validator when an
		// asset's warm-up ends, so rewards that x/distribution credited while an asset staked on the
		// validator was still in warm-up are shared with that asset if they are withdrawn after its
		// start time ("before its reward start time an asset earns no rewards" is violated, and the
		// other assets' positions receive less). The positions on the validator are not judged at
		// their next settlement.
		late := false
		for dn := range shareOnV {
			if ac.warm[dn] {
				late = true
			}
		}
		if late {
			x.KnownFinding("F-C14a")
			x.Label("c13:warm-up-rewards-shared-with-the-started-asset")
			for _, d := range s.Dels {
				if d.V == v {
					o.tainted[entKey{d.D, d.V, d.Denom}] = true
				}
			}
			continue
		}
		// a weight change (decay or governance) affects only rewards received afterwards: the
		// split uses the reward weights in force when the rewards accrued
		W := map[string]*big.Rat{}
		for dn, sh := range shareOnV {
			if w0 := ac.weight[dn]; w0 != nil && w0.Sign() > 0 {
				W[dn] = new(big.Rat).Mul(w0, sh)
			}
		}
		total := new(big.Rat)
		for dn := range ac.frac {
			if W[dn] != nil {
				total.Add(total, W[dn])
			}
		}
		if total.Sign() == 0 {
			continue // belongs to no one
		}
		for _, dn := range sortedKeys(ac.frac) {
			if W[dn] == nil {
				continue
			}
			share := new(big.Rat).Quo(W[dn], total)
			vt := s.ValTokens(v, dn)
			tolTok := assetTol(s, s, dn)
			for k, frac := range ac.frac[dn] {
				var posTokens *big.Rat
				if d, ok := s.FindDel(k.D, k.V, k.Denom); ok {
					posTokens = s.PosValue(d)
				} else {
					posTokens = new(big.Rat)
				}
				for _, c := range ac.coins {
					amt := new(big.Rat).Mul(intRat(c.Amount), share)
					addTo(o.ent, k, c.Denom, new(big.Rat).Mul(amt, frac))
					// tolerance contributed by this accrual (DESIGN §3 C13):
					//  - the claim weight is the integer floor(V+0.01), and the module knows token
					//    values only to within tolTok: (2+tolTok) staked units' worth of reward
					//  - the 18-digit per-token index: 1e-17 per token held; the normalised asset
					//    weight is itself rounded at 1e-18
					//  - the withdrawn amount is truncated once per accrual
					sl := new(big.Rat)
					if vt.Sign() > 0 {
						perToken := new(big.Rat).Quo(amt, vt)
						sl.Add(sl, new(big.Rat).Mul(perToken, new(big.Rat).Add(big.NewRat(2, 1), tolTok)))
					}
					sl.Add(sl, new(big.Rat).Mul(new(big.Rat).Add(posTokens, intRat(c.Amount)), big.NewRat(1, 100_000_000_000_000_000)))
					sl.Add(sl, big.NewRat(1, 1))
					// the module computes each asset's staked reward weight (weight x share of the asset
					// on this validator) in 18-digit decimals: absolute resolution 1e-18, so the
					// normalised split is uncertain by ~4e-18/total; a total below that resolution makes
					// the module treat the rewards as belonging to no one
					res := new(big.Rat).Quo(big.NewRat(4*int64(len(W)+1), 1_000_000_000_000_000_000), total)
					if res.Cmp(big.NewRat(1, 1)) > 0 {
						res = big.NewRat(1, 1)
					}
					sl.Add(sl, new(big.Rat).Mul(intRat(c.Amount), res))
					addTo(o.slack, k, c.Denom, sl)
				}
			}
		}
	}
}

// taint: a value-changing event hit while rewards were accrued but unclaimed (the
// property quantifies over histories without such events; those are C12's).
func (o *OracleC13) taint(x *Exec, s *Snap, pending []sdk.Coins) {
	n := 0
	// every existing position may hold index deltas the reference no longer tracks
	for _, d := range s.Dels {
		o.tainted[entKey{d.D, d.V, d.Denom}] = true
	}
	// rewards still pending in x/distribution will be deposited later: whoever is staked on
	// that validator then is not judged either
	for v, c := range pending {
		if !c.IsZero() {
			o.taintVal[v] = true
		}
	}
	for k := range o.ent {
		o.tainted[k] = true
		n++
	}
	for _, accs := range o.acc {
		for _, a := range accs {
			for _, m := range a.frac {
				for k := range m {
					o.tainted[k] = true
					n++
				}
			}
		}
	}
	if n > 0 {
		x.Label("excluded:c13-value-change-between-accrual-and-claim")
	}
	o.ent = map[entKey]map[string]*big.Rat{}
	o.slack = map[entKey]map[string]*big.Rat{}
	o.acc = map[int][]accrual{}
}

func (o *OracleC13) After(x *Exec, op *Op, res *Res) {
	pre, post := x.Pre(), x.Post()
	w := x.W
	now := pendingRewards(w, x.Ctx)
	for _, dn := range post.AssetOrder {
		if x.PrecisionCollapsed(dn) || degenerateAsset(post, dn) || degenerateAsset(pre, dn) || orphanedValidator(post, dn) || orphanedValidator(pre, dn) {
			// Listed finding F-C04a: an asset with staked total but no validator shares (100% slash
			// of every holder) is treated by the module as fully staked on EVERY validator and
			// absorbs a share of every validator's rewards. Entitlements are not judged there.
			x.KnownFinding("F-C04a")
			x.Label("excluded:c13-ownerless-value-state")
			o.taint(x, post, now)
			return
		}
	}
	if (op.K == KSlash || op.K == KSlashHook) && x.L.LastSlashFrac != nil {
		checkCallbackClaimsIdempotent(x, "C13", op)
		o.taint(x, post, now)
		return
	}
	if op.K == KBlock {
		if !res.OK {
			return
		}
		for _, dn := range pre.AssetOrder {
			if pa, ok := post.Assets[dn]; ok && !pa.TotalTokens.Equal(pre.Assets[dn].TotalTokens) {
				o.taint(x, post, now) // take-rate deduction changed token values
				break
			}
		}
		for v := range w.Vals {
			// withdrawn during the end-of-block (rebalancing / weight change)?
			if o.prePending != nil && !o.prePending[v].IsZero() && o.preBlock != nil && o.preBlock[v].IsZero() {
				o.deposit(x, pre, v)
			}
			before := sdk.NewCoins()
			if o.preBlock != nil {
				before = o.preBlock[v]
			}
			acc := sdk.NewCoins()
			for _, c := range now[v] {
				d := c.Amount.Sub(before.AmountOf(c.Denom))
				if d.IsPositive() {
					acc = acc.Add(sdk.NewCoin(c.Denom, d))
				}
			}
			if !acc.IsZero() {
				x.Label("c13:accrual")
				o.accrue(x, post, v, acc)
			}
		}
		return
	}
	// deposits of this step: pending dropped to zero
	for v := range w.Vals {
		if o.prePending != nil && !o.prePending[v].IsZero() && now[v].IsZero() {
			if len(o.acc[v]) > 0 && (op.K == KDelegate || op.K == KRedelegate) {
				x.Label("c13:stake-op-settled-pending-rewards")
			}
			o.deposit(x, pre, v)
		}
	}
	// which positions does this step settle, by specification?
	var settled []entKey
	exists := func(d, v int, denom string) bool {
		_, ok := pre.FindDel(d, v, denom)
		return ok
	}
	started := func(denom string) bool {
		a, ok := pre.Assets[denom]
		return ok && !pre.Time.Before(a.RewardStartTime)
	}
	principal := map[int]map[string]*big.Int{} // what the op itself moved out of the user's balance
	switch op.K {
	case KClaim:
		if res.OK && exists(op.D, op.V, op.Denom) && started(op.Denom) {
			settled = append(settled, entKey{op.D, op.V, op.Denom})
		}
	case KDelegate:
		if res.OK {
			principal[op.D] = map[string]*big.Int{op.Denom: bigOf(op.Amt)}
			if exists(op.D, op.V, op.Denom) && started(op.Denom) {
				settled = append(settled, entKey{op.D, op.V, op.Denom})
			} else if !exists(op.D, op.V, op.Denom) {
				x.Label("c13:new-position-by-delegate")
			}
		}
	case KUndelegate:
		if res.OK && started(op.Denom) {
			settled = append(settled, entKey{op.D, op.V, op.Denom})
		}
	case KRedelegate:
		if res.OK {
			if started(op.Denom) {
				settled = append(settled, entKey{op.D, op.V, op.Denom})
				if exists(op.D, op.W, op.Denom) {
					settled = append(settled, entKey{op.D, op.W, op.Denom})
				}
			}
			if !exists(op.D, op.W, op.Denom) {
				x.Label("c13:new-position-by-redelegate")
				if len(o.acc[op.W]) > 0 {
					x.Label("c13:new-position-by-redelegate-while-rewards-pending")
				}
			} else {
				x.Label("c13:grown-position-by-redelegate")
			}
		}
	case KClaimAll:
		failed := map[string]bool{}
		for _, k := range x.LastClaimAllFailed {
			failed[k] = true
		}
		if len(failed) > 0 {
			x.Label("c13:claim-all-partial")
		}
		for _, d := range pre.Dels {
			if started(d.Denom) && !failed[d.Key()] {
				settled = append(settled, entKey{d.D, d.V, d.Denom})
			}
		}
	case KSlash, KSlashHook:
		if x.L.LastSlashFrac != nil && x.L.LastSlashHookErr == "" {
			for _, r := range x.L.Redel {
				if r.S == op.V && !r.Completion.Before(pre.Time) && exists(r.D, r.T, r.Denom) && started(r.Denom) {
					settled = append(settled, entKey{r.D, r.T, r.Denom})
				}
			}
		}
	case KExportImp:
		return
	}
	// "a claim pays the accumulated entitlement", rewards not yet withdrawn from the distribution
	// module included: an operation that settles a position first withdraws its validator's pending
	// rewards, whatever the validator's bond status — nothing may be left pending for it afterwards
	mustSettle := map[int]bool{}
	switch op.K {
	case KClaim, KUndelegate:
		if res.OK && exists(op.D, op.V, op.Denom) && started(op.Denom) {
			mustSettle[op.V] = true
		}
	case KDelegate:
		// (an existing position of an asset still in warm-up earns nothing and settles nothing)
		if res.OK && (started(op.Denom) || !exists(op.D, op.V, op.Denom)) {
			mustSettle[op.V] = true
		}
	case KRedelegate:
		if res.OK {
			if started(op.Denom) || !exists(op.D, op.W, op.Denom) {
				mustSettle[op.W] = true
			}
			if started(op.Denom) {
				mustSettle[op.V] = true
			}
		}
	}
	for v := range w.Vals {
		if mustSettle[v] && !now[v].IsZero() {
			x.Fail("C13", "settles", "%s succeeded but left %s of rewards for validator %d (status %s) unwithdrawn in x/distribution: the accumulated entitlement of the positions on it is not settled", op.K, now[v], v, post.Vals[v].Status)
		}
	}
	// claims never change a share record
	if op.K == KClaim || op.K == KClaimAll {
		for _, d := range pre.Dels {
			nd, ok := post.FindDel(d.D, d.V, d.Denom)
			if !ok || !nd.Shares.Equal(d.Shares) {
				x.Fail("C13", "stake-neutral", "%s changed the shares of position %s", op.K, d.Key())
			}
		}
	}
	// compare per delegator: observed payout vs settled entitlement
	seen := map[entKey]bool{}
	want := map[int]map[string]*big.Rat{}
	tol := map[int]map[string]*big.Rat{}
	skipD := map[int]bool{}
	for _, k := range settled {
		if o.tainted[k] {
			skipD[k.D] = true
			delete(o.tainted, k)
			delete(o.ent, k)
			delete(o.slack, k)
		}
	}
	for _, k := range settled {
		if seen[k] {
			continue
		}
		seen[k] = true
		if want[k.D] == nil {
			want[k.D], tol[k.D] = map[string]*big.Rat{}, map[string]*big.Rat{}
		}
		for dn, e := range o.ent[k] {
			if want[k.D][dn] == nil {
				want[k.D][dn], tol[k.D][dn] = new(big.Rat), new(big.Rat)
			}
			want[k.D][dn].Add(want[k.D][dn], e)
			tol[k.D][dn].Add(tol[k.D][dn], o.slack[k][dn])
			tol[k.D][dn].Add(tol[k.D][dn], big.NewRat(1, 1)) // final truncation per claim and denom
			// the claim multiplies the per-token index by the position's token value as the
			// module sees it NOW (integer, known only to the stated fixed-point tolerance)
			if d, ok := pre.FindDel(k.D, k.V, k.Denom); ok {
				pv := pre.PosValue(d)
				unc := new(big.Rat).Add(big.NewRat(2, 1), assetTol(pre, post, k.Denom))
				if pv.Sign() > 0 {
					tol[k.D][dn].Add(tol[k.D][dn], new(big.Rat).Quo(new(big.Rat).Mul(e, unc), pv))
				} else {
					tol[k.D][dn].Add(tol[k.D][dn], e)
				}
			}
		}
		delete(o.ent, k)
		delete(o.slack, k)
	}
	for i := range post.Users {
		dIdx := i
		if i == len(post.Users)-1 {
			dIdx = 100
		}
		denoms := map[string]bool{}
		for _, c := range pre.Users[i] {
			denoms[c.Denom] = true
		}
		for _, c := range post.Users[i] {
			denoms[c.Denom] = true
		}
		for dn := range want[dIdx] {
			denoms[dn] = true
		}
		if skipD[dIdx] {
			continue
		}
		for _, dn := range sortedKeys(denoms) {
			got := new(big.Int).Sub(amountOf(post.Users[i], dn), amountOf(pre.Users[i], dn))
			if p := principal[dIdx]; p != nil && p[dn] != nil {
				got.Add(got, p[dn])
			}
			wv, tv := new(big.Rat), new(big.Rat)
			if want[dIdx] != nil && want[dIdx][dn] != nil {
				wv, tv = want[dIdx][dn], tol[dIdx][dn]
			}
			diff := new(big.Rat).Sub(new(big.Rat).SetInt(got), wv)
			if tv.Sign() > 0 {
				noteErr(x, "c13-payout/tol", diff, tv)
			}
			if ratAbs(diff).Cmp(tv) > 0 {
				kind := "payout"
				if wv.Sign() == 0 {
					kind = "not-retroactive/idempotent"
				}
				x.Fail("C13", kind, "%s: delegator %d was paid %s %s, entitlement of the settled positions %v is %s (tolerance %s)", op.K, dIdx, got, dn, settled, wv.FloatString(3), tv.FloatString(3))
			}
			if got.Sign() > 0 {
				x.Label("c13:payout")
			}
		}
	}
	// positions that disappeared take their (settled) entitlement with them
	for k := range o.ent {
		if _, ok := post.FindDel(k.D, k.V, k.Denom); !ok {
			delete(o.ent, k)
			delete(o.slack, k)
		}
	}
}

// ---------- C12 ----------

type OracleC12 struct {
	step     int
	deposits int
	// hist is the rounding allowance already consumed by claims that were actually paid
	// earlier in the history (an over-payment by rounding leaves the pool short for good)
	hist map[string]*big.Rat
	// tainted: a slash happened while rewards were accrued but unclaimed — the trigger of
	// the listed finding F-C12a (payouts use the CURRENT token value, which the slash of
	// another validator raises). From then on the pool may be short by design of that defect.
	tainted      bool
	pendingTaint bool
	// ownerless: rewards that entered the pool for validators without any alliance delegator
	// shares (the module keeps dust stake there): they back nobody's entitlement, so what the
	// delegations can claim must be covered by the pool WITHOUT them
	ownerless sdk.Coins
	prePend   []sdk.Coins
	eobPend   []sdk.Coins
}

// EndOfBlock: pending rewards at the block boundary (after the end-blockers, before the allocation).
func (o *OracleC12) EndOfBlock(x *Exec) {
	pre := x.Pre()
	o.eobPend = pendingRewardsOf(x.W, x.Ctx, func(v int) bool { return noDelegatorShares(&pre.Vals[v]) })
}

func noDelegatorShares(v *ValSnap) bool {
	for _, sh := range v.DelShares {
		if !sh.IsZero() {
			return false
		}
	}
	return true
}

// trackOwnerless adds what this step certainly moved into the pool for ownerless validators: the
// drop of their pending x/distribution rewards, capped by the pool's net increase.
func (o *OracleC12) trackOwnerless(x *Exec, op *Op, res *Res) {
	if o.prePend == nil || op.K == KSlash || op.K == KSlashHook {
		return
	}
	after := o.eobPend
	if op.K != KBlock {
		p0 := x.Pre()
		after = pendingRewardsOf(x.W, x.Ctx, func(v int) bool { return noDelegatorShares(&p0.Vals[v]) })
	}
	if after == nil || (op.K == KBlock && (res.AllianceEBErr != "" || res.StakingEBErr != "")) {
		return
	}
	pre, post := x.Pre(), x.Post()
	if op.K == KBlock {
		post = x.EndSnap
	}
	drop := sdk.NewCoins()
	for v := range pre.Vals {
		if !noDelegatorShares(&pre.Vals[v]) || !noDelegatorShares(&post.Vals[v]) {
			continue
		}
		for _, c := range o.prePend[v] {
			if d := c.Amount.Sub(after[v].AmountOf(c.Denom)); d.IsPositive() {
				drop = drop.Add(sdk.NewCoin(c.Denom, d))
			}
		}
	}
	for _, c := range drop {
		inc := post.Rewards.AmountOf(c.Denom).Sub(pre.Rewards.AmountOf(c.Denom))
		if inc.IsPositive() {
			o.ownerless = o.ownerless.Add(sdk.NewCoin(c.Denom, math.MinInt(inc, c.Amount)))
			x.Label("c12:ownerless-rewards-entered-the-pool")
		}
	}
}

// unclaimed reports whether any position has rewards accrued but not yet claimed in state s
// (index delta in the pool, or rewards pending in x/distribution for a validator with positions).
func unclaimedRewards(w *World, ctx sdk.Context, s *Snap) bool {
	for _, d := range s.Dels {
		if d.V < 0 {
			continue
		}
		for _, h := range s.Vals[d.V].History {
			if h.Alliance != d.Denom {
				continue
			}
			old := math.LegacyZeroDec()
			for _, oh := range d.History {
				if oh.Denom == h.Denom && oh.Alliance == h.Alliance {
					old = oh.Index
				}
			}
			if h.Index.GT(old) {
				return true
			}
		}
	}
	for v, c := range pendingRewards(w, ctx) {
		if !c.IsZero() {
			for _, d := range s.Dels {
				if d.V == v {
					return true
				}
			}
		}
	}
	return false
}

func (*OracleC12) Name() string { return "C12" }
func (o *OracleC12) Before(x *Exec, op *Op) {
	p0 := x.Pre()
	o.prePend = pendingRewardsOf(x.W, x.Ctx, func(v int) bool { return noDelegatorShares(&p0.Vals[v]) })
	if (op.K == KSlash || op.K == KSlashHook) && !o.tainted && unclaimedRewards(x.W, x.Ctx, x.Pre()) {
		o.pendingTaint = true
	}
}
func (*OracleC12) End(x *Exec) {}

var shortRe = regexp.MustCompile(`spendable balance (\d+)([a-zA-Z/0-9]+) is smaller than (\d+)`)

func (o *OracleC12) After(x *Exec, op *Op, res *Res) {
	o.step++
	w := x.W
	s := x.Post()
	if op.K == KBlock {
		o.deposits++
	}
	if op.K == KSlash || op.K == KSlashHook {
		checkCallbackClaimsIdempotent(x, "C12", op)
	}
	o.trackOwnerless(x, op, res)
	if o.pendingTaint {
		o.pendingTaint = false
		if x.L.LastSlashFrac != nil {
			o.tainted = true
			x.KnownFinding("F-C12a")
			x.Label("excluded:c12-slash-with-unclaimed-rewards")
		}
	}
	if o.tainted {
		return
	}
	for _, dn := range s.AssetOrder {
		if x.PrecisionCollapsed(dn) {
			// listed finding F-C04a: claim weights (token values) of this asset are not meaningful any more
			x.KnownFinding("F-C04a")
			x.Label("excluded:c12-precision-collapsed")
			return
		}
	}
	// allowance consumed by the claims this step really paid
	if o.hist == nil {
		o.hist = map[string]*big.Rat{}
	}
	pre := x.Pre()
	for _, od := range pre.Dels {
		if od.V < 0 {
			continue
		}
		d, ok := s.FindDel(od.D, od.V, od.Denom)
		newHist := d.History
		if !ok {
			// the position was removed in this step (full exit): its claim was settled up to the
			// validator's current indices
			newHist = s.Vals[od.V].History
		}
		for _, h := range newHist {
			if h.Alliance != od.Denom {
				continue
			}
			d := od
			old := new(big.Rat)
			for _, oh := range od.History {
				if oh.Denom == h.Denom && oh.Alliance == h.Alliance {
					old = decRat(oh.Index)
				}
			}
			delta := new(big.Rat).Sub(decRat(h.Index), old)
			if delta.Sign() <= 0 {
				continue
			}
			if o.hist[h.Denom] == nil {
				o.hist[h.Denom] = new(big.Rat)
			}
			over := new(big.Rat).Add(big.NewRat(2, 100), assetTol(pre, s, d.Denom))
			o.hist[h.Denom].Add(o.hist[h.Denom], new(big.Rat).Mul(delta, over))
			o.hist[h.Denom].Add(o.hist[h.Denom], big.NewRat(2, 1))
			o.hist[h.Denom].Add(o.hist[h.Denom], new(big.Rat).Mul(pre.PosValue(od), big.NewRat(int64(o.deposits+1), 1_000_000_000_000_000_000)))
		}
	}
	if len(s.Dels) == 0 {
		return
	}
	unclaimedVals := map[int]bool{}
	// claim every delegation on ONE discarded branch, in a rotating order
	order := make([]DelSnap, len(s.Dels))
	copy(order, s.Dels)
	rot := o.step % len(order)
	order = append(order[rot:], order[:rot]...)
	if o.step%3 == 0 {
		sort.SliceStable(order, func(i, j int) bool { return order[i].Key() > order[j].Key() })
	}
	c, _ := x.Ctx.CacheContext()
	// what the settle loop below moves into the pool for validators without delegator shares
	ownerlessNow := sdk.NewCoins()
	for _, pc := range pendingRewardsOf(w, c, func(v int) bool { return noDelegatorShares(&s.Vals[v]) }) {
		ownerlessNow = ownerlessNow.Add(pc...)
	}
	// settle every validator's pending rewards first (what each claim would do anyway), so
	// that the indices the claims will use are observable for the rounding allowance
	func() {
		defer func() { _ = recover() }()
		for _, va := range w.Vals {
			if val, err := w.App.AllianceKeeper.GetAllianceValidator(c, va); err == nil {
				cc, write := c.CacheContext()
				if _, err := w.App.AllianceKeeper.ClaimValidatorRewards(cc, val); err == nil {
					write()
				}
			}
		}
	}()
	s = TakeSnap(w, c)
	poolBefore := w.App.BankKeeper.GetAllBalances(c, w.RewardsAddr)
	paid := sdk.NewCoins()
	for _, d := range order {
		if d.D < 0 || d.V < 0 {
			continue
		}
		if _, ok := s.Assets[d.Denom]; !ok {
			continue
		}
		bal0 := w.App.BankKeeper.GetAllBalances(c, sdk.MustAccAddressFromBech32(d.Del))
		var err error
		var pmsg string
		func() {
			defer func() {
				if r := recover(); r != nil {
					pmsg = fmt.Sprintf("panic: %v", r)
				}
			}()
			cc, write := c.CacheContext()
			_, err = w.MsgSrv.ClaimDelegationRewards(cc, alliancetypes.NewMsgClaimDelegationRewards(d.Del, d.Val, d.Denom))
			if err == nil {
				write()
			}
		}()
		if pmsg != "" {
			if strings.Contains(pmsg, "division by zero") && moduleSeesZeroValue(s, d.V, d.Denom) {
				continue // F-C05a territory, not solvency
			}
			x.Fail("C12", "claim-succeeds", "claim of position %s panics: %s", d.Key(), pmsg)
		}
		if err != nil {
			m := shortRe.FindStringSubmatch(err.Error())
			if m == nil {
				x.Fail("C12", "claim-succeeds", "claim of position %s fails: %v", d.Key(), err)
			}
			have, _ := new(big.Int).SetString(m[1], 10)
			need, _ := new(big.Int).SetString(m[3], 10)
			short := new(big.Int).Sub(need, have)
			bound := o.roundingBound(s, m[2])
			if new(big.Rat).SetInt(short).Cmp(bound) <= 0 {
				// Listed finding F-C12b: payouts use floor(value+0.01) as claim weight and an
				// 18-digit index, so the sum of payouts can exceed the deposits by a few units
				x.KnownFinding("F-C12b")
				x.Label("c12:rounding-shortfall")
				continue
			}
			x.Fail("C12", "solvency", "claiming every delegation (order starting at %s): position %s needs %s%s but the rewards pool holds %s (short by %s, rounding allowance %s)", order[0].Key(), d.Key(), need, m[2], have, short, bound.FloatString(3))
		}
		bal1 := w.App.BankKeeper.GetAllBalances(c, sdk.MustAccAddressFromBech32(d.Del))
		got, _ := bal1.SafeSub(bal0...)
		for _, cn := range got {
			if cn.IsPositive() {
				paid = paid.Add(cn)
				unclaimedVals[d.V] = true
			}
		}
	}
	if len(unclaimedVals) >= 2 && len(s.Dels) >= 2 {
		x.Label("c12:unclaimed-on>=2-validators")
	}
	// backed: every entitlement is covered by rewards received for validators that had delegators
	for _, pc := range paid {
		backed := new(big.Rat).SetInt(poolBefore.AmountOf(pc.Denom).Sub(o.ownerless.AmountOf(pc.Denom)).Sub(ownerlessNow.AmountOf(pc.Denom)).BigInt())
		bound := o.roundingBound(s, pc.Denom)
		over := new(big.Rat).Sub(intRat(pc.Amount), backed)
		if os.Getenv("VERIF_DEBUG") != "" {
			fmt.Printf("C12 step %d: claimable %s backed %s pool %s bound %s\n", len(x.Log)-1, pc, backed.FloatString(0), poolBefore, bound.FloatString(3))
		}
		if over.Sign() > 0 {
			noteErr(x, "c12-claimable-over-backed/allowance", over, bound)
		}
		if over.Cmp(bound) > 0 {
			x.Fail("C12", "backed", "all delegations together can claim %s but the rewards pool holds only %s%s that were received for validators with delegators (pool %s, of which %s entered it for validators without any delegator; rounding allowance %s)",
				pc, backed.FloatString(0), pc.Denom, poolBefore.AmountOf(pc.Denom), o.ownerless.AmountOf(pc.Denom).Add(ownerlessNow.AmountOf(pc.Denom)), bound.FloatString(3))
		}
	}
}

// roundingBound is the allowance of the listed finding F-C12b for reward denom d: per
// position, one unit for each truncation plus the over-estimate of its claim weight
// (floor(value+0.01) and the module's token-value tolerance) times its unclaimed index
// delta, plus the half-up rounding of the per-token index (1e-18 per token and deposit).
func (o *OracleC12) roundingBound(s *Snap, denom string) *big.Rat {
	b := new(big.Rat)
	if h := o.hist[denom]; h != nil {
		b.Add(b, h)
	}
	for _, d := range s.Dels {
		if d.V < 0 {
			continue
		}
		b.Add(b, big.NewRat(2, 1))
		// half-up rounding of the 18-digit per-token index: 1e-18 per token held and deposit
		b.Add(b, new(big.Rat).Mul(s.PosValue(d), big.NewRat(int64(o.deposits+1), 1_000_000_000_000_000_000)))
		var vIdx, dIdx *big.Rat
		for _, h := range s.Vals[d.V].History {
			if h.Denom == denom && h.Alliance == d.Denom {
				vIdx = decRat(h.Index)
			}
		}
		for _, h := range d.History {
			if h.Denom == denom && h.Alliance == d.Denom {
				dIdx = decRat(h.Index)
			}
		}
		if vIdx == nil {
			continue
		}
		if dIdx == nil {
			dIdx = new(big.Rat)
		}
		delta := new(big.Rat).Sub(vIdx, dIdx)
		if delta.Sign() <= 0 {
			continue
		}
		over := new(big.Rat).Add(big.NewRat(2, 100), assetTol(s, s, d.Denom))
		b.Add(b, new(big.Rat).Mul(delta, over))
	}
	return b
}
