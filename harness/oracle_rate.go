package harness

// oracle_rate.go — C09 (take rate) and C14 (reward weight lifecycle).

import (
	"fmt"
	"math/big"
	"math/bits"
	"time"

	"cosmossdk.io/math"
)

var (
	scale60 = new(big.Int).Exp(big.NewInt(10), big.NewInt(60), nil)
	e18     = big.NewRat(1, 1_000_000_000_000_000_000)
)

// trunc60 truncates a rational to 60 decimal digits (keeps the exact-power computation small).
func trunc60(r *big.Rat) *big.Rat {
	n := new(big.Int).Mul(r.Num(), scale60)
	n.Quo(n, r.Denom())
	return new(big.Rat).SetFrac(n, scale60)
}

// ratPow computes base^n to ~60 significant decimal digits (exponentiation by squaring).
func ratPow(base *big.Rat, n uint64) *big.Rat {
	result := big.NewRat(1, 1)
	b := new(big.Rat).Set(base)
	for n > 0 {
		if n&1 == 1 {
			result = trunc60(new(big.Rat).Mul(result, b))
		}
		n >>= 1
		if n > 0 {
			b = trunc60(new(big.Rat).Mul(b, b))
			if b.Cmp(new(big.Rat).SetFrac(new(big.Int).Exp(big.NewInt(10), big.NewInt(400), nil), big.NewInt(1))) > 0 {
				// astronomically large: cap (callers clamp anyway)
				b = new(big.Rat).SetFrac(new(big.Int).Exp(big.NewInt(10), big.NewInt(400), nil), big.NewInt(1))
			}
		}
	}
	return result
}

func mults(n uint64) int64 { return int64(2*bits.Len64(n) + 4) }

// ---------- C09 ----------

type OracleC09 struct {
	// deposits since the last deduction: times at which stake arrived (history-derived)
	deposits []time.Time
}

func (*OracleC09) Name() string           { return "C09" }
func (*OracleC09) Before(x *Exec, op *Op) {}
func (*OracleC09) End(x *Exec)            {}

func (o *OracleC09) After(x *Exec, op *Op, res *Res) {
	pre, post := x.Pre(), x.Post()
	if op.K == KDelegate && res.OK {
		o.deposits = append(o.deposits, pre.Time)
	}
	// the claim interval in force is the one the last accepted governance message configured
	if x.L.ClaimInterval >= 0 && int64(post.Params.TakeRateClaimInterval) != x.L.ClaimInterval {
		x.Fail("C09", "interval", "after %s the take-rate claim interval is %s, the last accepted update_params set %s", op.K, post.Params.TakeRateClaimInterval, time.Duration(x.L.ClaimInterval))
	}
	if op.K != KBlock {
		// outside end-of-block nothing may move the take-rate clock … except governance replacing params
		if op.K != KParams && !pre.Params.LastTakeRateClaimTime.Equal(post.Params.LastTakeRateClaimTime) {
			x.Fail("C09", "clock", "%s changed the take-rate clock", op.K)
		}
		return
	}
	if res.AllianceEBErr != "" || res.StakingEBErr != "" {
		return
	}
	T := x.LastEndTime
	c := pre.Params.LastTakeRateClaimTime
	I := pre.Params.TakeRateClaimInterval
	c2 := post.Params.LastTakeRateClaimTime
	unchanged := func(why string) {
		for _, dn := range pre.AssetOrder {
			pa, ok := post.Assets[dn]
			if !ok || !pa.TotalTokens.Equal(pre.Assets[dn].TotalTokens) {
				x.Fail("C09", "no-charge", "%s, but the staked total of %s changed from %s to %s", why, dn, pre.Assets[dn].TotalTokens, pa.TotalTokens)
			}
		}
	}
	if c.IsZero() {
		// clock not started: it starts now, nothing is charged
		unchanged("take-rate clock not started yet")
		if !c2.Equal(T) {
			x.Fail("C09", "clock", "clock was unset; it must start at the block time %s, got %s", T, c2)
		}
		return
	}
	if I <= 0 {
		return // rejected by governance (F-C17a repaired); nothing to say
	}
	if !T.After(c.Add(I)) {
		unchanged("no whole claim interval has elapsed beyond the trigger")
		if !c2.Equal(c) {
			x.Fail("C09", "clock", "clock moved from %s to %s although block time %s is not after clock + interval", c, c2, T)
		}
		return
	}
	n := uint64(T.Sub(c) / I)
	if n >= 2 {
		x.Label("c09:multi-interval-deduction")
	}
	chargeable := 0
	lowered := false
	removed := map[string]*big.Int{}
	for _, dn := range pre.AssetOrder {
		a := pre.Assets[dn]
		pa, ok := post.Assets[dn]
		if !ok {
			x.Fail("C09", "asset", "end-of-block deleted asset %s", dn)
		}
		started := !T.Before(a.RewardStartTime)
		if !(a.TotalTokens.IsPositive() && a.TakeRate.IsPositive() && started) {
			if !pa.TotalTokens.Equal(a.TotalTokens) {
				x.Fail("C09", "not-chargeable", "asset %s (total %s, rate %s, started %v) must not be charged, total became %s", dn, a.TotalTokens, a.TakeRate, started, pa.TotalTokens)
			}
			continue
		}
		chargeable++
		TT := intRat(a.TotalTokens)
		mult := ratPow(new(big.Rat).Sub(big.NewRat(1, 1), decRat(a.TakeRate)), n)
		exact := new(big.Rat).Mul(TT, mult)
		want := ratFloor(exact)
		// tolerance: the module's Power() squares repeatedly and rounds at 18 digits after
		// every multiplication; a relative error doubles with each squaring, so the worst
		// case grows linearly with n: (n+64) * 2e-18 relative, plus two base units
		tol := new(big.Rat).Mul(TT, new(big.Rat).Mul(e18, new(big.Rat).SetFrac(new(big.Int).Mul(big.NewInt(2), new(big.Int).Add(new(big.Int).SetUint64(n), big.NewInt(64))), big.NewInt(1))))
		tol.Add(tol, big.NewRat(2, 1))
		got := pa.TotalTokens.BigInt()
		if !pa.TotalTokens.IsPositive() {
			x.Fail("C09", "never-zero", "take rate %s drove the staked total of %s from %s to %s", a.TakeRate, dn, a.TotalTokens, pa.TotalTokens)
		}
		diff := new(big.Rat).Sub(new(big.Rat).SetInt(got), new(big.Rat).SetInt(want))
		stop := exact.Cmp(new(big.Rat).Add(big.NewRat(1, 1), tol)) <= 0 && pa.TotalTokens.Equal(a.TotalTokens) // "stop reducing at one unit"
		if !stop {
			noteErr(x, "c09-total/tol", diff, tol)
			if ratAbs(diff).Cmp(tol) > 0 {
				x.Fail("C09", "compounding", "asset %s: %d intervals at rate %s: total %s -> %s, expected floor(T*(1-r)^n) = %s (tolerance %s)", dn, n, a.TakeRate, a.TotalTokens, pa.TotalTokens, want, tol.FloatString(3))
			}
		}
		if pa.TotalTokens.GT(a.TotalTokens) {
			x.Fail("C09", "compounding", "asset %s total grew during take-rate deduction", dn)
		}
		if pa.TotalTokens.LT(a.TotalTokens) {
			lowered = true
			removed[dn] = new(big.Int).Sub(a.TotalTokens.BigInt(), pa.TotalTokens.BigInt())
		}
		// shares untouched => every position shrinks by the same proportion
		if !pa.TotalValidatorShares.Equal(a.TotalValidatorShares) {
			x.Fail("C09", "proportional", "take-rate deduction changed the share total of %s", dn)
		}
	}
	for _, d := range pre.Dels {
		nd, ok := post.FindDel(d.D, d.V, d.Denom)
		if !ok || !nd.Shares.Equal(d.Shares) {
			x.Fail("C09", "proportional", "end-of-block changed the shares of position %s", d.Key())
		}
	}
	for i := range pre.Vals {
		for _, dn := range sortedKeys(pre.Vals[i].ValShares) {
			if !post.Vals[i].ValShares[dn].Equal(pre.Vals[i].ValShares[dn]) {
				x.Fail("C09", "proportional", "end-of-block changed validator %d's shares of %s", i, dn)
			}
		}
	}
	// exact transfer: custody loss == removed; the fee collector received exactly that
	// (observed at the block boundary, before the next block's allocation empties it)
	eb := x.EndSnap
	for _, dn := range custodyDenoms(pre, post) {
		rm := removed[dn]
		if rm == nil {
			rm = new(big.Int)
		}
		// custody also pays matured unbondings in this end-of-block
		paid := new(big.Int)
		for _, u := range x.L.Due {
			if u.Denom == dn {
				paid.Add(paid, u.Remaining)
			}
		}
		loss := new(big.Int).Sub(amountOf(pre.Module, dn), amountOf(eb.Module, dn))
		if loss.Cmp(new(big.Int).Add(rm, paid)) != 0 {
			x.Fail("C09", "transfer", "custody of %s fell by %s during end-of-block, take rate removed %s and matured unbondings paid %s", dn, loss, rm, paid)
		}
		gain := new(big.Int).Sub(amountOf(eb.FeeColl, dn), amountOf(pre.FeeColl, dn))
		if gain.Cmp(rm) != 0 {
			x.Fail("C09", "transfer", "take rate removed %s %s from the staked total but the fee collector gained %s", rm, dn, gain)
		}
	}
	// clock
	if lowered {
		x.Label("c09:deduction")
		want := c.Add(I * time.Duration(n))
		if !c2.Equal(want) || c2.After(T) {
			x.Fail("C09", "clock", "after a deduction of %d intervals the clock must be %s (<= block time %s), got %s", n, want, T, c2)
		}
		// non-retroactivity: deposits that arrived after >=1 whole interval since the clock were
		// charged for intervals that ended before they arrived — listed finding F-C09
		for _, td := range o.deposits {
			if td.After(c) && uint64(td.Sub(c)/I) >= 1 {
				x.KnownFinding("F-C09")
				x.Label("c09:retroactive-charge")
				break
			}
		}
		if len(o.deposits) > 0 {
			x.Label("c09:deposit-between-deductions")
		}
		o.deposits = nil
	} else {
		if c2.Before(c) || c2.After(T) {
			x.Fail("C09", "clock", "clock %s left the interval [%s, %s] without a deduction", c2, c, T)
		}
		if chargeable == 0 && !c2.After(c) {
			// Whole intervals have elapsed and nothing was chargeable: if the clock stays behind,
			// those intervals will be charged to whatever stake arrives (or starts) later —
			// charging stake for intervals before it was deposited / before its start time.
			x.Fail("C09", "clock", "a whole claim interval elapsed with no chargeable asset (block time %s) but the clock stayed at %s: the elapsed intervals will be charged retroactively to later stake", T, c)
		}
		if chargeable == 0 {
			x.Label("c09:trigger-without-chargeable-asset")
		}
		if !c2.Equal(c) {
			// clock restarted: stake deposited before now starts a fresh interval
			o.deposits = nil
		}
	}
}

// ---------- C14 ----------

type OracleC14 struct{}

func (OracleC14) Name() string           { return "C14" }
func (OracleC14) Before(x *Exec, op *Op) {}
func (OracleC14) End(x *Exec)            {}

func (o OracleC14) After(x *Exec, op *Op, res *Res) {
	pre, post := x.Pre(), x.Post()
	// range invariant after every step
	for _, dn := range post.AssetOrder {
		a := post.Assets[dn]
		if a.RewardWeight.LT(a.RewardWeightRange.Min) || a.RewardWeight.GT(a.RewardWeightRange.Max) {
			x.Fail("C14", "range", "after %s: asset %s has reward weight %s outside its range [%s, %s]", op.K, dn, a.RewardWeight, a.RewardWeightRange.Min, a.RewardWeightRange.Max)
		}
	}
	switch op.K {
	case KBlock:
		if res.AllianceEBErr != "" || res.StakingEBErr != "" {
			return
		}
		T := x.LastEndTime
		// warm-up: before its reward start time an asset is not charged the take rate
		for _, dn := range pre.AssetOrder {
			a := pre.Assets[dn]
			if pa, ok := post.Assets[dn]; ok && T.Before(a.RewardStartTime) {
				x.Label("c14:block-with-warm-up-asset")
				if !pa.TotalTokens.Equal(a.TotalTokens) {
					x.Fail("C14", "warm-up", "asset %s is still in its warm-up period (start %s, block time %s) but its staked total changed from %s to %s", dn, a.RewardStartTime, T, a.TotalTokens, pa.TotalTokens)
				}
			}
		}
		decayed := 0
		for _, dn := range pre.AssetOrder {
			a := pre.Assets[dn]
			pa, ok := post.Assets[dn]
			if !ok {
				continue
			}
			due := a.RewardChangeInterval > 0 && !a.RewardChangeRate.Equal(math.LegacyOneDec()) && !a.LastRewardChangeTime.Add(a.RewardChangeInterval).After(T)
			if !due {
				if !pa.RewardWeight.Equal(a.RewardWeight) || !pa.LastRewardChangeTime.Equal(a.LastRewardChangeTime) {
					x.Fail("C14", "schedule", "asset %s: no decay step is due at %s (last %s, interval %s, rate %s) but weight %s -> %s, clock -> %s", dn, T, a.LastRewardChangeTime, a.RewardChangeInterval, a.RewardChangeRate, a.RewardWeight, pa.RewardWeight, pa.LastRewardChangeTime)
				}
				continue
			}
			n := uint64(T.Sub(a.LastRewardChangeTime) / a.RewardChangeInterval)
			decayed++
			if n >= 2 {
				x.Label("c14:multi-interval-decay")
			}
			w := decRat(a.RewardWeight)
			exact := new(big.Rat).Mul(w, ratPow(decRat(a.RewardChangeRate), n))
			lo, hi := decRat(a.RewardWeightRange.Min), decRat(a.RewardWeightRange.Max)
			want := exact
			if want.Cmp(lo) < 0 {
				want = lo
			}
			if want.Cmp(hi) > 0 {
				want = hi
			}
			tol := new(big.Rat).Add(big.NewRat(1, 1), new(big.Rat).Add(w, want))
			tol.Mul(tol, new(big.Rat).Mul(e18, new(big.Rat).SetFrac(new(big.Int).Mul(big.NewInt(4), new(big.Int).Add(new(big.Int).SetUint64(n), big.NewInt(64))), big.NewInt(1))))
			diff := new(big.Rat).Sub(decRat(pa.RewardWeight), want)
			noteErr(x, "c14-weight/tol", diff, tol)
			if ratAbs(diff).Cmp(tol) > 0 {
				x.Fail("C14", "decay", "asset %s: %d intervals at rate %s from weight %s: got %s, expected clamp(w*rate^n) = %s", dn, n, a.RewardChangeRate, a.RewardWeight, pa.RewardWeight, want.FloatString(18))
			}
			wantClock := a.LastRewardChangeTime.Add(a.RewardChangeInterval * time.Duration(n))
			if !pa.LastRewardChangeTime.Equal(wantClock) || pa.LastRewardChangeTime.After(T) {
				x.Fail("C14", "clock", "asset %s: decay clock must advance by %d whole intervals to %s (<= %s), got %s", dn, n, wantClock, T, pa.LastRewardChangeTime)
			}
		}
		if decayed >= 2 {
			x.Label("c14:several-assets-decay-in-one-block")
		}
		if decayed >= 1 {
			x.Label("c14:decay-step")
		}
	case KClaim, KClaimAll:
		// before its reward start time an asset earns nothing: a claim pays nothing
		if op.K == KClaim && res.OK {
			if a, ok := pre.Assets[op.Denom]; ok && pre.Time.Before(a.RewardStartTime) {
				x.Label("c14:claim-in-warm-up")
				ui := op.D
				if ui == 100 {
					ui = len(pre.Users) - 1
				}
				if !pre.Users[ui].Equal(post.Users[ui]) {
					x.Fail("C14", "warm-up", "claim on %s before its reward start time paid %s", op.Denom, post.Users[ui].Sub(pre.Users[ui]...))
				}
			}
		}
	case KUpdate:
		// the decay clock: when governance configures decay while none was scheduled (previous
		// rate 1 or previous interval 0) the clock starts at the block time of the update —
		// "after n whole change intervals" counts from there; otherwise the running clock is kept
		if !res.OK {
			return
		}
		a, ok := pre.Assets[op.Denom]
		pa, ok2 := post.Assets[op.Denom]
		if !ok || !ok2 {
			return
		}
		changed := !pa.RewardChangeRate.Equal(a.RewardChangeRate) || pa.RewardChangeInterval != a.RewardChangeInterval
		idle := a.RewardChangeRate.Equal(math.LegacyOneDec()) || a.RewardChangeInterval == 0
		want := a.LastRewardChangeTime
		if changed && idle {
			want = pre.Time
			x.Label("c14:decay-configured-on-idle-asset")
		}
		if !pa.LastRewardChangeTime.Equal(want) {
			x.Fail("C14", "clock", "update of %s (decay %s/%s -> %s/%s): decay clock is %s, expected %s", op.Denom, a.RewardChangeRate, a.RewardChangeInterval, pa.RewardChangeRate, pa.RewardChangeInterval, pa.LastRewardChangeTime, want)
		}
	default:
		// only governance and end-of-block may change a weight or the decay clock
		if op.K == KCreate || op.K == KDelete || op.K == KExportImp {
			return
		}
		for _, dn := range pre.AssetOrder {
			if pa, ok := post.Assets[dn]; ok && !pa.RewardWeight.Equal(pre.Assets[dn].RewardWeight) {
				x.Fail("C14", "schedule", "%s changed the reward weight of %s", op.K, dn)
			}
		}
	}
	_ = fmt.Sprint
}
