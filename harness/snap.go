package harness

// snap.go — the observation layer. A Snap is a complete, deterministic picture of
// everything the oracles look at, read through public getters and raw KV iteration.
// No computation of the code under test is reused: position values, targets etc. are
// recomputed by the oracles in exact rationals.

import (
	"bytes"
	"fmt"
	"math/big"
	"sort"
	"time"

	"cosmossdk.io/math"
	storetypes "cosmossdk.io/store/types"
	"github.com/cosmos/cosmos-sdk/runtime"
	sdk "github.com/cosmos/cosmos-sdk/types"
	stakingtypes "github.com/cosmos/cosmos-sdk/x/staking/types"

	alliancetypes "github.com/terra-money/alliance/x/alliance/types"
)

type ValSnap struct {
	Idx        int
	Addr       string
	HasInfo    bool
	DelShares  map[string]math.LegacyDec // TotalDelegatorShares by denom
	ValShares  map[string]math.LegacyDec // ValidatorShares by denom
	History    []alliancetypes.RewardHistory
	Tokens     math.Int
	Shares     math.LegacyDec
	Status     stakingtypes.BondStatus
	Jailed     bool
	Commission math.LegacyDec
	ModShares  math.LegacyDec // staking shares held by the alliance module account
	HasModDel  bool
	LastPower  int64
}

// ModTokens is the token value of the module's staking delegation (exact rational).
func (v *ValSnap) ModTokens() *big.Rat {
	if !v.HasModDel || v.Shares.IsZero() {
		return new(big.Rat)
	}
	r := new(big.Rat).Mul(decRat(v.ModShares), new(big.Rat).SetInt(v.Tokens.BigInt()))
	return r.Quo(r, decRat(v.Shares))
}

type DelSnap struct {
	D       int // delegator index (-1 unknown)
	V       int
	Del     string
	Val     string
	Denom   string
	Shares  math.LegacyDec
	History []alliancetypes.RewardHistory
	LastH   uint64
}

func (d DelSnap) Key() string { return fmt.Sprintf("%d/%d/%s", d.D, d.V, d.Denom) }

type UnbEntry struct {
	Del, Val string
	D, V     int
	Denom    string
	Amt      math.Int
}

type UnbBucket struct {
	Completion time.Time
	Del        string // from the key
	Entries    []UnbEntry
	RawKey     []byte
}

type UnbIndex struct {
	Val, Del   string
	V, D       int
	Completion time.Time
	Denom      string
}

type RedelRec struct {
	Del, Src, Dst string // Del/Dst from the key, Src from the value
	D, S, T       int
	Denom         string
	Completion    time.Time
	Amt           math.Int
	ValDel        string // delegator recorded in the value
	ValDst        string
}

type RedelIndex struct {
	Src, Dst, Del string
	S, T, D       int
	Denom         string
	Completion    time.Time
}

type RedelQueueEntry struct {
	Completion    time.Time
	Del, Src, Dst string
	Denom         string
	Amt           math.Int
}

type Snap struct {
	Time   time.Time
	Height int64

	Assets     map[string]alliancetypes.AllianceAsset
	AssetOrder []string
	Vals       []ValSnap
	Dels       []DelSnap
	Unb        []UnbBucket
	UnbIdx     []UnbIndex
	Redels     []RedelRec
	RedelIdx   []RedelIndex
	RedelQ     []RedelQueueEntry
	Flag       bool
	NSnapshots int
	Params     alliancetypes.Params

	UnbondingTime time.Duration
	MaxValidators uint32

	Module, Rewards, FeeColl, Bonded, NotBonded, Distr sdk.Coins
	Users                                              []sdk.Coins // delegators..., then probe
	Supply                                             sdk.Coins
	TotalBonded                                        math.Int
}

func decRat(d math.LegacyDec) *big.Rat {
	if d.IsNil() {
		return new(big.Rat)
	}
	return new(big.Rat).SetFrac(d.BigInt(), precisionReuse)
}

var precisionReuse = new(big.Int).Exp(big.NewInt(10), big.NewInt(18), nil)

func intRat(i math.Int) *big.Rat {
	if i.IsNil() {
		return new(big.Rat)
	}
	return new(big.Rat).SetInt(i.BigInt())
}

func ratFloor(r *big.Rat) *big.Int {
	q := new(big.Int)
	m := new(big.Int)
	q.DivMod(r.Num(), r.Denom(), m)
	return q
}

func decCoinsMap(dc []sdk.DecCoin) map[string]math.LegacyDec {
	m := map[string]math.LegacyDec{}
	for _, c := range dc {
		m[c.Denom] = c.Amount
	}
	return m
}

func trimDenom(b []byte) string {
	// CreateDenomAddressPrefix appends a zero byte
	return string(bytes.TrimRight(b, "\x00"))
}

// lp reads one length-prefixed field.
func lp(key []byte, off int) ([]byte, int) {
	n := int(key[off])
	return key[off+1 : off+1+n], off + 1 + n
}

func TakeSnap(w *World, ctx sdk.Context) *Snap {
	ak := w.App.AllianceKeeper
	s := &Snap{Time: ctx.BlockTime(), Height: ctx.BlockHeight(), Assets: map[string]alliancetypes.AllianceAsset{}}
	for _, a := range ak.GetAllAssets(ctx) {
		s.Assets[a.Denom] = *a
		s.AssetOrder = append(s.AssetOrder, a.Denom)
	}
	for i, va := range w.Vals {
		vs := ValSnap{Idx: i, Addr: va.String(), DelShares: map[string]math.LegacyDec{}, ValShares: map[string]math.LegacyDec{}}
		if info, ok := ak.GetAllianceValidatorInfo(ctx, va); ok {
			vs.HasInfo = true
			vs.DelShares = decCoinsMap(info.TotalDelegatorShares)
			vs.ValShares = decCoinsMap(info.ValidatorShares)
			vs.History = info.GlobalRewardHistory
		}
		val, err := w.App.StakingKeeper.GetValidator(ctx, va)
		if err == nil {
			vs.Tokens, vs.Shares, vs.Status, vs.Jailed = val.Tokens, val.DelegatorShares, val.Status, val.Jailed
			vs.Commission = val.Commission.Rate
		} else {
			vs.Tokens, vs.Shares = math.ZeroInt(), math.LegacyZeroDec()
		}
		if d, err := w.App.StakingKeeper.GetDelegation(ctx, w.ModuleAddr, va); err == nil {
			vs.HasModDel, vs.ModShares = true, d.Shares
		} else {
			vs.ModShares = math.LegacyZeroDec()
		}
		if p, err := w.App.StakingKeeper.GetLastValidatorPower(ctx, va); err == nil {
			vs.LastPower = p
		}
		s.Vals = append(s.Vals, vs)
	}
	for _, d := range ListDelegations(w, ctx) {
		s.Dels = append(s.Dels, DelSnap{D: w.DelIndex(d.DelegatorAddress), V: w.ValIndex(d.ValidatorAddress), Del: d.DelegatorAddress, Val: d.ValidatorAddress,
			Denom: d.Denom, Shares: d.Shares, History: d.RewardHistory, LastH: d.LastRewardClaimHeight})
	}
	store := runtime.KVStoreAdapter(ak.StoreService().OpenKVStore(ctx))
	cdc := w.App.AppCodec()

	// 0x24 unbonding buckets
	it := storetypes.KVStorePrefixIterator(store, alliancetypes.UndelegationQueueKey)
	for ; it.Valid(); it.Next() {
		k := it.Key()
		tb, off := lp(k, 1)
		db, _ := lp(k, off)
		t, err := sdk.ParseTimeBytes(tb)
		mustOK(err)
		var q alliancetypes.QueuedUndelegation
		cdc.MustUnmarshal(it.Value(), &q)
		b := UnbBucket{Completion: t, Del: sdk.AccAddress(db).String(), RawKey: append([]byte{}, k...)}
		for _, e := range q.Entries {
			b.Entries = append(b.Entries, UnbEntry{Del: e.DelegatorAddress, Val: e.ValidatorAddress, D: w.DelIndex(e.DelegatorAddress), V: w.ValIndex(e.ValidatorAddress),
				Denom: e.Balance.Denom, Amt: e.Balance.Amount})
		}
		s.Unb = append(s.Unb, b)
	}
	it.Close()
	// 0x32 unbonding index
	it = storetypes.KVStorePrefixIterator(store, alliancetypes.UndelegationByValidatorIndexKey)
	for ; it.Valid(); it.Next() {
		k := it.Key()
		vb, off := lp(k, 1)
		tb, off := lp(k, off)
		dn, off := lp(k, off)
		db, _ := lp(k, off)
		t, err := sdk.ParseTimeBytes(tb)
		mustOK(err)
		va, da := sdk.ValAddress(vb).String(), sdk.AccAddress(db).String()
		s.UnbIdx = append(s.UnbIdx, UnbIndex{Val: va, Del: da, V: w.ValIndex(va), D: w.DelIndex(da), Completion: t, Denom: trimDenom(dn)})
	}
	it.Close()
	// 0x22 redelegation records: key = del | denom | dst | time
	it = storetypes.KVStorePrefixIterator(store, alliancetypes.RedelegationKey)
	for ; it.Valid(); it.Next() {
		k := it.Key()
		db, off := lp(k, 1)
		dn, off := lp(k, off)
		tb, off := lp(k, off)
		t, err := sdk.ParseTimeBytes(k[off:])
		mustOK(err)
		var r alliancetypes.Redelegation
		cdc.MustUnmarshal(it.Value(), &r)
		da, ta := sdk.AccAddress(db).String(), sdk.ValAddress(tb).String()
		s.Redels = append(s.Redels, RedelRec{Del: da, Src: r.SrcValidatorAddress, Dst: ta, D: w.DelIndex(da), S: w.ValIndex(r.SrcValidatorAddress), T: w.ValIndex(ta),
			Denom: trimDenom(dn), Completion: t, Amt: r.Balance.Amount, ValDel: r.DelegatorAddress, ValDst: r.DstValidatorAddress})
	}
	it.Close()
	// 0x31 redelegation index: src | time | denom | dst | del
	it = storetypes.KVStorePrefixIterator(store, alliancetypes.RedelegationByValidatorIndexKey)
	for ; it.Valid(); it.Next() {
		k := it.Key()
		sb, off := lp(k, 1)
		tb, off := lp(k, off)
		dn, off := lp(k, off)
		dstb, off := lp(k, off)
		db, _ := lp(k, off)
		t, err := sdk.ParseTimeBytes(tb)
		mustOK(err)
		sa, ta, da := sdk.ValAddress(sb).String(), sdk.ValAddress(dstb).String(), sdk.AccAddress(db).String()
		s.RedelIdx = append(s.RedelIdx, RedelIndex{Src: sa, Dst: ta, Del: da, S: w.ValIndex(sa), T: w.ValIndex(ta), D: w.DelIndex(da), Denom: trimDenom(dn), Completion: t})
	}
	it.Close()
	// 0x23 redelegation queue: time -> entries
	it = storetypes.KVStorePrefixIterator(store, alliancetypes.RedelegationQueueKey)
	for ; it.Valid(); it.Next() {
		t, err := sdk.ParseTimeBytes(it.Key()[1:])
		mustOK(err)
		var q alliancetypes.QueuedRedelegation
		cdc.MustUnmarshal(it.Value(), &q)
		for _, e := range q.Entries {
			s.RedelQ = append(s.RedelQ, RedelQueueEntry{Completion: t, Del: e.DelegatorAddress, Src: e.SrcValidatorAddress, Dst: e.DstValidatorAddress, Denom: e.Balance.Denom, Amt: e.Balance.Amount})
		}
	}
	it.Close()
	s.Flag = store.Has(alliancetypes.AssetRebalanceQueueKey)
	it = storetypes.KVStorePrefixIterator(store, alliancetypes.RewardWeightChangeSnapshotKey)
	for ; it.Valid(); it.Next() {
		s.NSnapshots++
	}
	it.Close()
	s.Params = ak.GetParams(ctx)

	sp, err := w.App.StakingKeeper.GetParams(ctx)
	mustOK(err)
	s.UnbondingTime, s.MaxValidators = sp.UnbondingTime, sp.MaxValidators

	bk := w.App.BankKeeper
	s.Module = bk.GetAllBalances(ctx, w.ModuleAddr)
	s.Rewards = bk.GetAllBalances(ctx, w.RewardsAddr)
	s.FeeColl = bk.GetAllBalances(ctx, w.FeeCollector)
	s.Bonded = bk.GetAllBalances(ctx, w.BondedPool)
	s.NotBonded = bk.GetAllBalances(ctx, w.NotBondedPool)
	s.Distr = bk.GetAllBalances(ctx, w.DistrAddr)
	for _, d := range w.Dels {
		s.Users = append(s.Users, bk.GetAllBalances(ctx, d))
	}
	s.Users = append(s.Users, bk.GetAllBalances(ctx, w.Probe))
	s.Supply = sdk.NewCoins()
	bk.IterateTotalSupply(ctx, func(c sdk.Coin) bool {
		s.Supply = s.Supply.Add(c)
		return false
	})
	s.TotalBonded, err = w.App.StakingKeeper.TotalBondedTokens(ctx)
	mustOK(err)
	return s
}

// ---- exact position values ----

// ValTokens is the exact token value of validator v's stake in asset denom.
func (s *Snap) ValTokens(v int, denom string) *big.Rat {
	a, ok := s.Assets[denom]
	if !ok {
		return new(big.Rat)
	}
	vs, ok := s.Vals[v].ValShares[denom]
	if !ok {
		vs = math.LegacyZeroDec()
	}
	if a.TotalValidatorShares.IsZero() {
		// the module's convention: with no shares recorded the whole total is attributed
		return intRat(a.TotalTokens)
	}
	r := new(big.Rat).Mul(decRat(vs), intRat(a.TotalTokens))
	return r.Quo(r, decRat(a.TotalValidatorShares))
}

// PosValue is the exact redeemable value of a delegation.
func (s *Snap) PosValue(d DelSnap) *big.Rat {
	if d.V < 0 {
		return new(big.Rat)
	}
	vt := s.ValTokens(d.V, d.Denom)
	tds, ok := s.Vals[d.V].DelShares[d.Denom]
	if !ok || tds.IsZero() {
		return vt
	}
	r := new(big.Rat).Mul(decRat(d.Shares), vt)
	return r.Quo(r, decRat(tds))
}

// Reported is the balance the module reports for a position: floor(V + 0.01).
func (s *Snap) Reported(d DelSnap) *big.Int {
	v := s.PosValue(d)
	v.Add(v, big.NewRat(1, 100))
	return ratFloor(v)
}

func (s *Snap) FindDel(dIdx, vIdx int, denom string) (DelSnap, bool) {
	for _, d := range s.Dels {
		if d.D == dIdx && d.V == vIdx && d.Denom == denom {
			return d, true
		}
	}
	return DelSnap{}, false
}

func (s *Snap) DelsOfAsset(denom string) []DelSnap {
	var out []DelSnap
	for _, d := range s.Dels {
		if d.Denom == denom {
			out = append(out, d)
		}
	}
	return out
}

// PendingUnbSum sums all queued unbonding balances per denom.
func (s *Snap) PendingUnbSum() map[string]*big.Int {
	m := map[string]*big.Int{}
	for _, b := range s.Unb {
		for _, e := range b.Entries {
			if m[e.Denom] == nil {
				m[e.Denom] = new(big.Int)
			}
			m[e.Denom].Add(m[e.Denom], e.Amt.BigInt())
		}
	}
	return m
}

func amountOf(c sdk.Coins, denom string) *big.Int { return c.AmountOf(denom).BigInt() }

func sortStrings(s []string) []string { sort.Strings(s); return s }
