package harness

// oracle_gov.go — C16 (governance gate, asset-parameter validity) and C19 (determinism).

import (
	"bytes"
	"crypto/sha256"
	"encoding/hex"
	"fmt"
	"strings"
	"testing"
	"time"

	"cosmossdk.io/math"
	storetypes "cosmossdk.io/store/types"
	sdk "github.com/cosmos/cosmos-sdk/types"
	banktypes "github.com/cosmos/cosmos-sdk/x/bank/types"
	distrtypes "github.com/cosmos/cosmos-sdk/x/distribution/types"
	stakingtypes "github.com/cosmos/cosmos-sdk/x/staking/types"

	"github.com/terra-money/alliance/x/alliance"
	alliancetypes "github.com/terra-money/alliance/x/alliance/types"
)

// dumpStore renders one module store as a digest and a key count.
func dumpStore(w *World, ctx sdk.Context, name string) (string, int) {
	st := ctx.KVStore(w.App.GetKey(name))
	it := storetypes.KVStorePrefixIterator(st, nil)
	defer it.Close()
	h := sha256.New()
	n := 0
	for ; it.Valid(); it.Next() {
		k, v := it.Key(), it.Value()
		fmt.Fprintf(h, "%d:", len(k))
		h.Write(k)
		fmt.Fprintf(h, "%d:", len(v))
		h.Write(v)
		n++
	}
	return hex.EncodeToString(h.Sum(nil)), n
}

func dumpStoreRaw(w *World, ctx sdk.Context, name string) [][2][]byte {
	st := ctx.KVStore(w.App.GetKey(name))
	it := storetypes.KVStorePrefixIterator(st, nil)
	defer it.Close()
	var out [][2][]byte
	for ; it.Valid(); it.Next() {
		out = append(out, [2][]byte{append([]byte{}, it.Key()...), append([]byte{}, it.Value()...)})
	}
	return out
}

// ---------- C16 ----------

type OracleC16 struct {
	preDump [][2][]byte
}

func (*OracleC16) Name() string { return "C16" }
func (*OracleC16) End(x *Exec)  {}

func isGov(k string) bool {
	return k == KCreate || k == KUpdate || k == KDelete || k == KParams
}

func (o *OracleC16) Before(x *Exec, op *Op) {
	x.OnRejected = nil
	if isGov(op.K) {
		o.preDump = dumpStoreRaw(x.W, x.Ctx, alliancetypes.StoreKey)
		// "field validation then authority comparison before any write": a handler that refuses a
		// request must not have written anything by then — judged on the handler's own branch, before
		// baseapp's rollback hides it (a handler may be called outside a transaction: legacy
		// proposal execution, other modules, genesis tooling)
		pre := o.preDump
		k := op.K
		x.OnRejected = func(ctx sdk.Context, res *Res) {
			if res.Panic != "" {
				return // a panic aborts the whole transaction in every caller
			}
			now := dumpStoreRaw(x.W, ctx, alliancetypes.StoreKey)
			if d := diffDumps(pre, now); d != "" {
				x.Fail("C16", "rejected-no-change", "%s was refused (%s) but its handler had already written to the module store: %s", k, res.Err, d)
			}
		}
	}
}

// diffDumps describes the first difference of two raw store dumps ("" when equal).
func diffDumps(a, b [][2][]byte) string {
	am := map[string]string{}
	for _, kv := range a {
		am[string(kv[0])] = string(kv[1])
	}
	for _, kv := range b {
		v, ok := am[string(kv[0])]
		if !ok {
			return fmt.Sprintf("new key %x", kv[0])
		}
		if v != string(kv[1]) {
			return fmt.Sprintf("changed value of key %x", kv[0])
		}
		delete(am, string(kv[0]))
	}
	for k := range am {
		return fmt.Sprintf("deleted key %x (and %d more)", k, len(am)-1)
	}
	return ""
}

func decOK(s string) (math.LegacyDec, bool) {
	if s == "nil" || s == "" {
		return math.LegacyDec{}, false
	}
	d, err := math.LegacyNewDecFromStr(s)
	return d, err == nil
}

// invalidFields lists which requirements of the statement a governance op violates
// (used for the evidence / non-triviality rule, and to assert that invalid requests
// are rejected).
func invalidFields(x *Exec, op *Op, pre *Snap) []string {
	var bad []string
	if !op.Legacy && op.Signer != "auth" && op.Signer != "" {
		bad = append(bad, "authority")
	}
	_, exists := pre.Assets[op.Denom]
	switch op.K {
	case KParams:
		if op.Delay < 0 {
			bad = append(bad, "delay")
		}
		if op.Interval <= 0 {
			bad = append(bad, "interval")
		}
		return bad
	case KDelete:
		if !exists {
			bad = append(bad, "unknown-denom")
		} else if pre.Assets[op.Denom].TotalTokens.IsPositive() {
			bad = append(bad, "staked")
		}
		return bad
	case KCreate:
		if exists {
			bad = append(bad, "duplicate-denom")
		}
		if sdk.ValidateDenom(op.Denom) != nil {
			bad = append(bad, "denom")
		}
	case KUpdate:
		if !exists {
			bad = append(bad, "unknown-denom")
		}
	}
	rw, ok1 := decOK(op.RW)
	mn, ok2 := decOK(op.RWMin)
	mx, ok3 := decOK(op.RWMax)
	tr, ok4 := decOK(op.TakeRate)
	cr, ok5 := decOK(op.ChRate)
	if !ok1 || rw.IsNegative() {
		bad = append(bad, "weight")
	}
	if !ok2 || !ok3 {
		bad = append(bad, "range-nil")
	} else {
		if op.K == KCreate && (mn.IsNegative() || mx.IsNegative()) {
			bad = append(bad, "range-negative")
		}
		if mn.GT(mx) {
			bad = append(bad, "range-order")
		}
		if ok1 && (rw.LT(mn) || rw.GT(mx)) {
			bad = append(bad, "weight-outside-range")
		}
	}
	if !ok4 || tr.IsNegative() || tr.GTE(math.LegacyOneDec()) {
		bad = append(bad, "take-rate")
	}
	if !ok5 || !cr.IsPositive() {
		bad = append(bad, "change-rate")
	}
	if op.ChInt < 0 {
		bad = append(bad, "change-interval")
	}
	return bad
}

func (o *OracleC16) After(x *Exec, op *Op, res *Res) {
	pre, post := x.Pre(), x.Post()
	// the state predicate is inductive: after every step every stored asset is valid
	for _, dn := range post.AssetOrder {
		a := post.Assets[dn]
		switch {
		case a.TakeRate.IsNil() || a.TakeRate.IsNegative() || a.TakeRate.GTE(math.LegacyOneDec()):
			x.Fail("C16", "asset-valid", "after %s: asset %s has take rate %s outside [0,1)", op.K, dn, a.TakeRate)
		case a.RewardWeight.IsNil() || a.RewardWeightRange.Min.IsNil() || a.RewardWeightRange.Max.IsNil() ||
			a.RewardWeight.LT(a.RewardWeightRange.Min) || a.RewardWeight.GT(a.RewardWeightRange.Max):
			x.Fail("C16", "asset-valid", "after %s: asset %s has reward weight %s outside its range [%s, %s]", op.K, dn, a.RewardWeight, a.RewardWeightRange.Min, a.RewardWeightRange.Max)
		case a.RewardChangeRate.IsNil() || !a.RewardChangeRate.IsPositive():
			x.Fail("C16", "asset-valid", "after %s: asset %s has change rate %s <= 0", op.K, dn, a.RewardChangeRate)
		case a.RewardChangeInterval < 0:
			x.Fail("C16", "asset-valid", "after %s: asset %s has negative change interval %s", op.K, dn, a.RewardChangeInterval)
		}
	}
	if !isGov(op.K) {
		// nothing but governance (and the module's own end-of-block decay) may create, delete
		// or re-parameterise assets
		if op.K != KBlock && op.K != KExportImp {
			for _, dn := range pre.AssetOrder {
				pa, ok := post.Assets[dn]
				a := pre.Assets[dn]
				if !ok {
					x.Fail("C16", "gate", "%s deleted asset %s", op.K, dn)
				}
				if !pa.TakeRate.Equal(a.TakeRate) || !pa.RewardWeight.Equal(a.RewardWeight) || !pa.RewardChangeRate.Equal(a.RewardChangeRate) ||
					pa.RewardChangeInterval != a.RewardChangeInterval || !pa.RewardWeightRange.Min.Equal(a.RewardWeightRange.Min) || !pa.RewardWeightRange.Max.Equal(a.RewardWeightRange.Max) {
					x.Fail("C16", "gate", "%s (not a governance message) changed the parameters of asset %s", op.K, dn)
				}
			}
			if len(post.AssetOrder) != len(pre.AssetOrder) {
				x.Fail("C16", "gate", "%s (not a governance message) changed the set of assets", op.K)
			}
			if pre.Params.RewardDelayTime != post.Params.RewardDelayTime || pre.Params.TakeRateClaimInterval != post.Params.TakeRateClaimInterval {
				x.Fail("C16", "gate", "%s (not a governance message) changed the module parameters", op.K)
			}
		}
		return
	}
	bad := invalidFields(x, op, pre)
	if res.OK {
		x.Label("c16:accepted:" + op.K)
		if len(bad) > 0 {
			x.Fail("C16", "gate", "%s accepted although it violates %v: %s", op.K, bad, op)
		}
		if a, ok := pre.Assets[op.Denom]; ok && op.K == KUpdate {
			if a.TotalTokens.IsPositive() || (a.RewardChangeInterval > 0 && !a.RewardChangeRate.Equal(math.LegacyOneDec())) || pre.Time.Before(a.RewardStartTime) {
				x.Label("c16:accepted-on-staked-decaying-or-warm-up-asset")
			}
			pa := post.Assets[op.Denom]
			if !pa.TotalTokens.Equal(a.TotalTokens) || !pa.TotalValidatorShares.Equal(a.TotalValidatorShares) || pa.Denom != a.Denom || !pa.RewardStartTime.Equal(a.RewardStartTime) {
				x.Fail("C16", "update-preserves", "update of %s changed staked total / share total / denom / reward start time: %+v -> %+v", op.Denom, a, pa)
			}
			// exactly the requested values are stored
			if !pa.TakeRate.Equal(parseDec(op.TakeRate)) || !pa.RewardWeight.Equal(parseDec(op.RW)) || !pa.RewardChangeRate.Equal(parseDec(op.ChRate)) || int64(pa.RewardChangeInterval) != op.ChInt {
				x.Fail("C16", "update-applies", "update of %s did not store the requested values: %+v", op.Denom, pa)
			}
		}
		if op.K == KDelete {
			if _, ok := post.Assets[op.Denom]; ok {
				x.Fail("C16", "delete", "delete of %s succeeded but the asset is still stored", op.Denom)
			}
		}
		if op.K == KCreate {
			pa, ok := post.Assets[op.Denom]
			if !ok || !pa.TotalTokens.IsZero() || !pa.TotalValidatorShares.IsZero() {
				x.Fail("C16", "create", "create of %s did not store a fresh empty asset", op.Denom)
			}
			want := pre.Time.Add(pre.Params.RewardDelayTime)
			if ok && !pa.RewardStartTime.Equal(want) {
				x.Fail("C16", "create", "asset %s created with reward start time %s, expected block time + delay = %s", op.Denom, pa.RewardStartTime, want)
			}
		}
		if op.K == KParams {
			if int64(post.Params.RewardDelayTime) != op.Delay || int64(post.Params.TakeRateClaimInterval) != op.Interval {
				x.Fail("C16", "params", "update_params succeeded but stored %+v", post.Params)
			}
		}
		return
	}
	// rejected (error or panic): no state change at all
	x.Label("c16:rejected:" + op.K)
	if len(bad) == 1 {
		x.Label("c16:rejected-by-exactly-one-field")
		x.Label("c16:one-field:" + bad[0])
	}
	if len(bad) == 0 {
		x.Label("c16:well-formed-authority-message-rejected")
		if !strings.Contains(res.Err+res.Panic, "") {
			_ = 0
		}
	}
	now := dumpStoreRaw(x.W, x.Ctx, alliancetypes.StoreKey)
	if len(now) != len(o.preDump) {
		x.Fail("C16", "rejected-no-change", "rejected %s changed the number of module store keys (%d -> %d)", op.K, len(o.preDump), len(now))
	}
	for i := range now {
		if !bytes.Equal(now[i][0], o.preDump[i][0]) || !bytes.Equal(now[i][1], o.preDump[i][1]) {
			x.Fail("C16", "rejected-no-change", "rejected %s changed module store key %x", op.K, now[i][0])
		}
	}
	if !pre.Module.Equal(post.Module) || !pre.Supply.Equal(post.Supply) {
		x.Fail("C16", "rejected-no-change", "rejected %s changed balances", op.K)
	}
}

// ---------- C19 ----------

type OracleC19 struct{}

func (OracleC19) Name() string                    { return "C19" }
func (OracleC19) Before(x *Exec, op *Op)          {}
func (OracleC19) After(x *Exec, op *Op, res *Res) {}

var c19Stores = []string{alliancetypes.StoreKey, banktypes.StoreKey, stakingtypes.StoreKey, distrtypes.StoreKey}

func runDigest(x *Exec) (stores map[string]string, results []string) {
	stores = map[string]string{}
	for _, s := range c19Stores {
		d, _ := dumpStore(x.W, x.Ctx, s)
		stores[s] = d
	}
	for i, r := range x.Ress {
		ev := ""
		for _, e := range r.Events {
			ev += e.Type + "{"
			for _, a := range e.Attributes {
				ev += a.Key + "=" + a.Value + ";"
			}
			ev += "}"
		}
		h := sha256.Sum256([]byte(ev))
		results = append(results, fmt.Sprintf("%d %s %s|%s|%s|%s ev=%s", i, x.Log[i].K, r.Class(), r.Err, r.Panic, r.AllianceEBErr, hex.EncodeToString(h[:6])))
	}
	return
}

// End replays the concrete history three more times on sibling branches of the same base
// state; state, results and events must be byte-identical (Go randomises map iteration
// on every range, so an order-dependent loop over >=3 keys diverges with high probability).
func (OracleC19) End(x *Exec) {
	st0, rs0 := runDigest(x)
	// evidence: how map-order-sensitive was this history?
	s := x.Post()
	for _, v := range s.Vals {
		n := 0
		for _, sh := range v.ValShares {
			if sh.IsPositive() {
				n++
			}
		}
		if n >= 3 && len(v.History) > 0 {
			x.Label("c19:>=3-assets-on-one-validator-with-deposit")
		}
	}
	// time translation: the same history on a world whose base block time lies 29 years earlier
	// (on the other side of the wall clock) must go the same way — results, balances, shares and
	// every record, with time fields compared relative to the base. A transition that reads the
	// wall clock instead of the block header tells the two worlds apart.
	if w2 := shiftedWorld(); w2 != nil {
		y := NewExec(w2)
		for _, op := range x.Log {
			y.Apply(op)
			if y.Halted != "" {
				break
			}
		}
		a, b := normalizedRun(x), normalizedRun(y)
		for i := range a {
			if i >= len(b) || a[i] != b[i] {
				other := "(nothing)"
				if i < len(b) {
					other = b[i]
				}
				x.Fail("C19", "time-translation", "the same history executed from base time %s and from %s diverges (block times are the only clock a transition may read): %s  vs  %s",
					x.W.BaseTime.Format("2006-01-02"), w2.BaseTime.Format("2006-01-02"), a[i], other)
			}
		}
		x.Label("c19:time-translation-compared")
	}
	for k := 1; k <= 5; k++ {
		y := NewExec(x.W)
		for _, op := range x.Log {
			y.Apply(op)
			if y.Halted != "" {
				break
			}
			if k%2 == 0 {
				// every second replay is disturbed after each step by work on a branch that is thrown
				// away (what CheckTx / simulation / a failed transaction do all the time on a node):
				// everything a transition relies on lives in the store, so nothing may leak
				disturb(y)
			}
		}
		st, rs := runDigest(y)
		for _, name := range c19Stores {
			if st[name] != st0[name] {
				x.Fail("C19", "state", "replay %d of the same history on a sibling branch produced a different %s store (digest %s vs %s)", k, name, st[name][:16], st0[name][:16])
			}
		}
		if len(rs) != len(rs0) {
			x.Fail("C19", "results", "replay %d executed %d ops, original %d", k, len(rs), len(rs0))
		}
		for i := range rs {
			if rs[i] != rs0[i] {
				x.Fail("C19", "results", "replay %d diverged at op %s vs %s", k, rs[i], rs0[i])
			}
		}
	}
}

var theShiftedWorld *World
var shiftedWorldT *testing.T

// shiftedWorld is built lazily (once per process) from the testing.T of the campaign.
func shiftedWorld() *World {
	if theShiftedWorld == nil && shiftedWorldT != nil {
		theShiftedWorld = NewWorldAt(shiftedWorldT, time.Date(2001, 1, 1, 0, 0, 0, 0, time.UTC))
	}
	return theShiftedWorld
}

// normalizedRun renders results and final state with every time relative to the world's base time.
func normalizedRun(x *Exec) []string {
	base := x.W.BaseTime
	rel := func(t time.Time) string {
		if t.IsZero() || t.Unix() <= 0 {
			return "zero"
		}
		return fmt.Sprintf("%d", t.Sub(base))
	}
	var out []string
	for i, r := range x.Ress {
		out = append(out, fmt.Sprintf("result %d %s %s|%s|%s|%s", i, x.Log[i].K, r.Class(), r.Err, r.Panic, r.AllianceEBErr))
	}
	s := TakeSnap(x.W, x.Ctx)
	out = append(out, "time "+rel(s.Time))
	for _, dn := range s.AssetOrder {
		a := s.Assets[dn]
		out = append(out, fmt.Sprintf("asset %s w=%s [%s,%s] take=%s T=%s S=%s start=%s init=%v chrate=%s chint=%d last=%s", dn, a.RewardWeight, a.RewardWeightRange.Min, a.RewardWeightRange.Max,
			a.TakeRate, a.TotalTokens, a.TotalValidatorShares, rel(a.RewardStartTime), a.IsInitialized, a.RewardChangeRate, a.RewardChangeInterval, rel(a.LastRewardChangeTime)))
	}
	out = append(out, fmt.Sprintf("params delay=%d interval=%d last=%s flag=%v snapshots=%d", s.Params.RewardDelayTime, s.Params.TakeRateClaimInterval, rel(s.Params.LastTakeRateClaimTime), s.Flag, s.NSnapshots))
	for _, v := range s.Vals {
		out = append(out, fmt.Sprintf("val %d info=%v del=%v val=%v hist=%v tokens=%s shares=%s status=%d jailed=%v mod=%s", v.Idx, v.HasInfo, v.DelShares, v.ValShares, v.History, v.Tokens, v.Shares, v.Status, v.Jailed, v.ModShares))
	}
	for _, d := range s.Dels {
		out = append(out, fmt.Sprintf("del %s shares=%s hist=%v", d.Key(), d.Shares, d.History))
	}
	for _, b := range s.Unb {
		for _, e := range b.Entries {
			out = append(out, fmt.Sprintf("unb %s %d/%d/%s %s", rel(b.Completion), e.D, e.V, e.Denom, e.Amt))
		}
	}
	for _, i := range s.UnbIdx {
		out = append(out, fmt.Sprintf("unbidx %s %d/%d/%s", rel(i.Completion), i.D, i.V, i.Denom))
	}
	for _, r := range s.Redels {
		out = append(out, fmt.Sprintf("redel %s %d %d->%d %s %s", rel(r.Completion), r.D, r.S, r.T, r.Denom, r.Amt))
	}
	for _, r := range s.RedelIdx {
		out = append(out, fmt.Sprintf("redelidx %s %d %d->%d %s", rel(r.Completion), r.D, r.S, r.T, r.Denom))
	}
	for _, q := range s.RedelQ {
		out = append(out, fmt.Sprintf("redelq %s %s %s->%s %s %s", rel(q.Completion), q.Del, q.Src, q.Dst, q.Denom, q.Amt))
	}
	out = append(out, fmt.Sprintf("balances module=%s rewards=%s feecoll=%s bonded=%s notbonded=%s distr=%s users=%v supply=%s", s.Module, s.Rewards, s.FeeColl, s.Bonded, s.NotBonded, s.Distr, s.Users, s.Supply))
	return out
}

// disturb executes, on a discarded branch of y's current state, operations that rewrite the
// module's parameters and assets and run an end-of-block one hour ahead.
func disturb(y *Exec) {
	w := y.W
	c, _ := y.Ctx.CacheContext()
	c = c.WithEventManager(sdk.NewEventManager())
	defer func() { _ = recover() }()
	cur := w.App.AllianceKeeper.GetParams(c)
	_, _ = w.MsgSrv.UpdateParams(c, &alliancetypes.MsgUpdateParams{Authority: w.Authority, Params: alliancetypes.Params{
		RewardDelayTime: cur.RewardDelayTime + time.Hour, TakeRateClaimInterval: cur.TakeRateClaimInterval*7 + time.Second, LastTakeRateClaimTime: cur.LastTakeRateClaimTime}})
	for _, a := range w.App.AllianceKeeper.GetAllAssets(c) {
		_, _ = w.MsgSrv.UpdateAlliance(c, &alliancetypes.MsgUpdateAlliance{Authority: w.Authority, Denom: a.Denom,
			RewardWeight: a.RewardWeightRange.Max, RewardWeightRange: a.RewardWeightRange, TakeRate: math.LegacyNewDecWithPrec(3, 1),
			RewardChangeRate: math.LegacyNewDecWithPrec(9, 1), RewardChangeInterval: time.Minute})
	}
	_, _ = w.MsgSrv.Delegate(c, alliancetypes.NewMsgDelegate(w.Probe.String(), w.Vals[1].String(), sdk.NewCoin(AssetDenoms[0], math.NewInt(12345))))
	_ = w.App.AllianceKeeper.StakingHooks().BeforeValidatorSlashed(c, w.Vals[1], math.LegacyNewDecWithPrec(5, 2))
	_ = alliance.EndBlocker(c.WithBlockTime(c.BlockTime().Add(time.Hour)), w.App.AllianceKeeper)
}
