package harness

import (
	storetypes "cosmossdk.io/store/types"
	"github.com/cosmos/cosmos-sdk/runtime"
	sdk "github.com/cosmos/cosmos-sdk/types"
)

// ExportImport exports the alliance module state, wipes every alliance key and
// re-imports the export into the now empty module store (C18).
func ExportImport(w *World, ctx sdk.Context) error {
	ak := w.App.AllianceKeeper
	gs := ak.ExportGenesis(ctx)
	store := runtime.KVStoreAdapter(ak.StoreService().OpenKVStore(ctx))
	var keys [][]byte
	it := storetypes.KVStorePrefixIterator(store, nil)
	for ; it.Valid(); it.Next() {
		keys = append(keys, append([]byte{}, it.Key()...))
	}
	it.Close()
	for _, k := range keys {
		store.Delete(k)
	}
	ak.InitGenesis(ctx, gs)
	return nil
}
