package harness

// spec.go — registry: which profile, oracles and non-triviality rule decide each property.

type Spec struct {
	ID         string
	Profile    func(tier string) Profile
	Oracles    func() []Oracle
	NonTrivial func(x *Exec) bool
	Rule       string
}

var Specs = map[string]*Spec{}

func register(s *Spec) { Specs[s.ID] = s }

func tierSteps(p Profile, tier string) Profile {
	if tier == "thorough" {
		p.MaxSteps = p.MaxSteps * 3
	}
	return p
}

func init() {
	register(&Spec{
		ID:      "C01",
		Profile: func(tier string) Profile { return tierSteps(baseProfile(), tier) },
		Oracles: func() []Oracle { return []Oracle{OracleC01{}} },
		NonTrivial: func(x *Exec) bool {
			return x.Has("ok:"+KUndelegate) && (x.Has("slash-hit-unbonding") || x.Has("takerate-deducted") || x.Has("unbonding-paid") || x.Has("ok:"+KDonate))
		},
		Rule: "stateful rapid histories over the full op alphabet (core profile); non-trivial = history with >=1 successful undelegation and >=1 of {slash while an unbonding from that validator is pending, take-rate deduction, matured payout, donation}; distinct = distinct hash of the concrete op list",
	})
	register(&Spec{
		ID:      "C03",
		Profile: func(tier string) Profile { return tierSteps(baseProfile(), tier) },
		Oracles: func() []Oracle { return []Oracle{NewOracleC03()} },
		NonTrivial: func(x *Exec) bool {
			return x.Has("c03:asset-empty-after-stake") || x.Has("c03:clamp") || x.Has("takerate-deducted") && x.Has("ok:"+KUndelegate) || x.Has("slashed-with-stake") && x.Has("ok:"+KUndelegate)
		},
		Rule: "stateful rapid histories (core profile biased to full exits and +-1 amounts); non-trivial = an asset drained back to zero after having stake, or an undelegation/redelegation after a take-rate deduction or slash changed the share:token ratio; distinct = distinct concrete op list",
	})
}
