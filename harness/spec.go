package harness

import (
	"fmt"
	"os"
)

// spec.go — registry: which profile, oracles and non-triviality rule decide each property.

type Spec struct {
	ID         string
	Profile    func(tier string) Profile
	Oracles    func() []Oracle
	NonTrivial func(x *Exec) bool
	Rule       string
}

var Specs = map[string]*Spec{}

func register(s *Spec) { Specs[s.ID] = s }

func tierSteps(p Profile, tier string) Profile {
	if tier == "thorough" {
		p.MaxSteps = p.MaxSteps * 3
	}
	return p
}

func unbondProfile() Profile {
	p := baseProfile()
	p.Name = "unbond"
	p.Weights = map[string]int{KDelegate: 20, KUndelegate: 26, KRedelegate: 12, KClaim: 2, KBlock: 18, KSlashHook: 5, KSlash: 5, KUnbTime: 4, KDonate: 1, KJail: 1, KUnjail: 1, KNatDel: 1}
	p.FocusDelPct = 60
	p.UnbTimes = []int64{ns, sec, sec, 3600 * sec, 21 * day}
	p.BoundaryPct = 45
	p.RepeatPct = 40
	p.Weights[GPackBucket] = 7
	p.Weights[KReimport] = 3
	p.Weights[GDeletePending] = 3
	return p
}

func slashProfile() Profile {
	p := baseProfile()
	p.Name = "slash"
	p.Weights = map[string]int{KDelegate: 22, KUndelegate: 12, KRedelegate: 18, KClaim: 3, KBlock: 14, KSlashHook: 12, KSlash: 10, KUnbTime: 2, KJail: 1, KUnjail: 1, KDelete: 1, KCreate: 1, GRedelThenExit: 5, GMultiRedelSlash: 3, GPackBucket: 4, GMultiUnbondSlash: 3, KReimport: 3, GDeletePending: 2, GFanInSlash: 4}
	p.FocusDelPct = 40
	return p
}

func configProfile() Profile {
	p := baseProfile()
	p.Name = "accepted-config"
	p.Weights = map[string]int{KParams: 10, KUpdate: 12, KCreate: 6, KDelete: 3, KBlock: 34, KDelegate: 15, KUndelegate: 6, KRedelegate: 4, KSlash: 3, KSlashHook: 2, KClaim: 2, KJail: 1, KUnjail: 1, KNatDel: 1}
	maxDur := int64(9223372036854775807)
	p.Delays = []int64{0, 1, sec, 7 * day, maxDur}
	p.Intervals = []int64{0, 1, sec, 300 * sec, day, maxDur}
	p.ChInts = []int64{0, 1, sec, day, maxDur}
	p.ChRates = []string{"0.000000000000000001", "0.5", "0.99", "1", "1", "1.01", "2", "1000000000000000000"}
	p.TakeRates = []string{"0", "0.000000000000000001", "0.5", "0.999999", "0.999999999999999999"}
	p.Weights_ = []string{"0", "0.000000000000000001", "0.5", "1", "5", "1000000000000"}
	p.NoOverflowGuard = true
	p.InvalidPct = 5
	// what is "accepted" is the module's decision: requests with nil / negative / swapped / huge
	// fields are sent too, and whatever gets through must leave the end-of-block runnable
	p.GovFuzz = true
	p.Weights[KDonate] = 2
	p.Weights[GUpdateThenDecay] = 6
	return p
}

func liveProfile() Profile {
	p := baseProfile()
	p.Name = "liveness"
	p.MaxSteps = 25
	p.Weights[KSlashHook] = 6
	p.Weights[KSlash] = 6
	p.Weights[GDrainAsset] = 8
	p.Weights[GRedelThenExit] = 10
	p.Weights[KValExit] = 1
	p.Weights[KValCreate] = 1
	return p
}

func init() {
	register(&Spec{
		ID: "C18",
		Profile: func(tier string) Profile {
			p := unbondProfile()
			p.Name = "genesis-twin"
			p.Weights[KRedelegate] = 16
			p.Weights[KUpdate] = 3
			p.Weights[KClaim] = 5
			p.Weights[GExportAtBoundary] = 10
			p.Weights[KReimport] = 0
			p.Weights[GRedelThenExit] = 3
			p.ChRates = []string{"1", "0.5", "0.99"}
			p.Delays = []int64{0, 0, sec, 7 * day}
			p.MaxSteps = 30
			return tierSteps(p, tier)
		},
		Oracles: func() []Oracle { return []Oracle{OracleC18{}} },
		NonTrivial: func(x *Exec) bool {
			return x.Has("c18:rich-export") && x.Has("c18:continuation-with-slash-or-block")
		},
		Rule: "stateful rapid histories ('unbond' profile with redelegations, weight changes and claims) that fork at a block boundary: on the twin branch every alliance key is deleted and the module re-initialised from ExportGenesis; oracle = the twin's export byte-equals the original's, the continuation (drawn from the full alphabet) runs in lock-step on both and after every step result class/error and every observable (assets, validators incl. the module's staking delegations, delegations with reward histories, unbondings, redelegations, params, all balances, supply) must agree, and a systematic probe continuation (slash every validator, two blocks past every completion) on forks of both must agree; non-trivial = exported state has a shared unbonding bucket, >=2 redelegations or a weight snapshot, and the continuation contains a slash or a block; distinct = distinct concrete op list",
	})
}

func govProfile() Profile {
	p := baseProfile()
	p.Name = "governance"
	p.Weights = map[string]int{KCreate: 14, KUpdate: 22, KDelete: 10, KParams: 10, KDelegate: 14, KUndelegate: 6, KRedelegate: 3, KBlock: 16, KClaim: 2, KSlashHook: 1}
	p.GovFuzz = true
	p.Weights[GUpdateThenDecay] = 4
	p.InvalidPct = 15
	p.Delays = []int64{0, 0, sec, 7 * day}
	p.ChRates = []string{"1", "0.5", "0.99", "1.01"}
	p.HugeAmounts = false
	return p
}

func init() {
	register(&Spec{
		ID:      "C16",
		Profile: func(tier string) Profile { return tierSteps(govProfile(), tier) },
		Oracles: func() []Oracle { return []Oracle{&OracleC16{}} },
		NonTrivial: func(x *Exec) bool {
			return x.Has("c16:accepted-on-staked-decaying-or-warm-up-asset") || x.Has("c16:rejected-by-exactly-one-field")
		},
		Rule: "stateful rapid histories, 'governance' profile: the four governance messages and the three legacy proposal contents with every field drawn from {nil, negative, 0, boundary, 1e30, min/max durations}, signer in {authority, other valid address, module account, malformed, empty}, on assets that are empty / staked / decaying / in warm-up, mixed with staking ops and decay blocks; oracle = success implies every requirement of the statement (independent predicate over the request and the pre-state), update preserves the four protected fields and stores the requested ones, delete only when empty, create once with start = block time + delay, rejected or panicking messages leave the module store byte-identical, every stored asset valid after every step; non-trivial = an accepted update on a staked / decaying / warm-up asset, or a rejection of a request violating exactly one requirement; distinct = distinct concrete op list",
	})
	register(&Spec{
		ID: "C19",
		Profile: func(tier string) Profile {
			p := baseProfile()
			p.Name = "determinism"
			p.NAssetsMin = 3
			p.Delays = []int64{0, 0, 0, sec}
			p.ChRates = []string{"0.5", "0.99", "1"}
			p.ChInts = []int64{sec, sec, 300 * sec}
			p.FocusDelPct = 50
			p.FocusValPct = 60
			p.MaxSteps = 30
			p.Weights[KBlock] = 30
			p.Weights[KClaim] = 10
			p.Weights[GMultiRedelSlash] = 6
			p.Weights[GMultiUnbondSlash] = 6
			p.Weights[GRedelThenExit] = 3
			return tierSteps(p, tier)
		},
		Oracles: func() []Oracle { return []Oracle{OracleC19{}} },
		NonTrivial: func(x *Exec) bool {
			return x.Has("c19:>=3-assets-on-one-validator-with-deposit") || x.Has("c14:several-assets-decay-in-one-block") || x.Has("weight-decayed") && x.Has("ok:"+KClaim)
		},
		Rule: "stateful rapid histories (core profile forced to 3 assets, decay on, composites packing several redelegations / several unbonding buckets of one validator before a slash); each generated history is (a) re-executed 5 more times on sibling branches of the same base state within the process: raw KV digests of the alliance, bank, staking and distribution stores, every op result and every event list must be identical (Go randomises map iteration per range statement); (b) executed on a second world whose base block time lies 29 years earlier, on the other side of the wall clock: results and every observable, with times taken relative to the base, must agree (time translation: only block time may be read); (c) for half of the shards, executed again by a second OS process from the same rapid seed (other GOMAXPROCS/GOGC): per-case digests must agree; non-trivial = >=3 assets staked on one validator that received a reward deposit, or weights decayed and rewards were claimed; distinct = distinct concrete op list",
	})
}

func rewardsProfile() Profile {
	p := baseProfile()
	p.Name = "rewards"
	p.Weights = map[string]int{KDelegate: 22, KUndelegate: 10, KRedelegate: 12, KClaim: 12, KBlock: 26, KUpdate: 4, KClaimAll: 2, KSlashHook: 2, KSlash: 2, KNatDel: 2, KJail: 1, KUnjail: 1}
	p.TakeRates = []string{"0"}
	p.Delays = []int64{0, 0, 0, sec}
	p.ChRates = []string{"1", "1", "0.5", "0.99"}
	p.Weights_ = []string{"0.01", "0.5", "1", "5"}
	p.SettleBeforeValueChange = true
	p.SettleSlashPct = 65
	p.FocusValPct = 45
	p.NAssetsMin = 1
	p.InvalidPct = 3
	p.Weights[GRedelThenExit] = 3
	p.Weights[GWeightChangeOut] = 3
	p.Weights[GRedelIntoUnclaim] = 4
	p.Weights[KReimport] = 2
	p.Weights[GRecreateAsset] = 3
	return p
}

func init() {
	register(&Spec{
		ID:      "C13",
		Profile: func(tier string) Profile { return tierSteps(rewardsProfile(), tier) },
		Oracles: func() []Oracle { return []Oracle{NewOracleC13()} },
		NonTrivial: func(x *Exec) bool {
			return x.Has("c13:payout") && x.Has("c13:accrual-shared-by>=2-positions") && (x.Has("c13:stake-op-settled-pending-rewards") || x.Has("c13:new-position-by-redelegate-while-rewards-pending"))
		},
		Rule: "stateful rapid histories, 'rewards' profile (take rate 0; claim_all injected before every slash so that no value-changing event separates accrual and claim; all arrival paths of new stake; governance weight changes and decay); oracle = exact-rational reference: what x/distribution accrues to the module per validator at each block start (measured by withdrawing on a throw-away branch) is credited to the positions existing at that moment (weight x share-of-asset normalised over started assets, then pro rata by delegator shares); every explicit or implicit claim must pay the accumulated entitlement of the settled positions within the derived tolerance, nothing otherwise; non-trivial = a payout in a history where an accrual was shared by >=2 positions of one validator and stake arrived on a validator (by delegation or redelegation) while rewards were pending for it in x/distribution; distinct = distinct concrete op list",
	})
	register(&Spec{
		ID: "C12",
		Profile: func(tier string) Profile {
			p := rewardsProfile()
			p.TakeRates = []string{"0", "0", "0.001", "0.5"}
			p.Weights[KBlock] = 30
			p.MaxSteps = 30
			return tierSteps(p, tier)
		},
		Oracles:    func() []Oracle { return []Oracle{&OracleC12{}} },
		NonTrivial: func(x *Exec) bool { return x.Has("c12:unclaimed-on>=2-validators") },
		Rule:       "stateful rapid histories, 'rewards' profile with take rates (claim_all injected before every slash and before every block, i.e. before every value-changing event: the trigger of the listed finding F-C12a is excluded by construction, injected ops are counted); after every step every delegation claims on one discarded branch in a rotating/reversed order and every claim must be payable by the rewards pool (shortfalls within the rounding allowance are the listed finding F-C12b); non-trivial = the sweep paid rewards to positions on >=2 validators; distinct = distinct concrete op list",
	})
}

func takerateProfile() Profile {
	p := baseProfile()
	p.Name = "takerate"
	p.Weights = map[string]int{KDelegate: 24, KUndelegate: 10, KRedelegate: 5, KClaim: 2, KBlock: 40, KUpdate: 5, KParams: 3, KSlashHook: 1, KCreate: 1, KDonate: 1}
	p.TakeRates = []string{"0", "0.000000000000000001", "0.00001", "0.001", "0.1", "0.5", "0.999999"}
	p.Delays = []int64{0, 0, 0, sec, 7 * day}
	p.Intervals = []int64{1, sec, 300 * sec, 300 * sec, day}
	p.ChRates = []string{"1", "1", "0.5", "0.99"}
	p.Weights[KReimport] = 2
	return p
}

func powerProfile() Profile {
	p := baseProfile()
	p.Name = "power"
	p.Weights = map[string]int{KDelegate: 20, KUndelegate: 8, KRedelegate: 6, KClaim: 2, KBlock: 30, KNatDel: 8, KNatUndel: 8, KNatRedel: 4, KSlash: 6, KSlashHook: 1, KJail: 3, KUnjail: 3, KUpdate: 4, KMaxVals: 2, KCreate: 1, GQuietNative: 6, KValExit: 2, KValCreate: 1}
	p.Delays = []int64{0, 0, 0, sec, 7 * day}
	p.TakeRates = []string{"0", "0", "0.001", "0.5"}
	p.ChRates = []string{"1", "1", "0.5", "0.99"}
	p.HugeAmounts = false
	p.Weights[KReimport] = 2
	p.Weights[GReimportWhileOut] = 3
	p.Weights[KDonate] = 2
	return p
}

func init() {
	register(&Spec{
		ID:      "C09",
		Profile: func(tier string) Profile { return tierSteps(takerateProfile(), tier) },
		Oracles: func() []Oracle { return []Oracle{&OracleC09{}} },
		NonTrivial: func(x *Exec) bool {
			return x.Has("c09:deduction") && (x.Has("c09:multi-interval-deduction") || x.Has("c09:deposit-between-deductions"))
		},
		Rule: "stateful rapid histories, 'takerate' profile (rates 1e-18..0.999999, claim intervals 1ns..1d, sub-/multi-interval and irregular block steps, deposits and withdrawals between deductions, governance rate changes, warm-up assets); oracle = transition relation of every end-of-block: exact-rational compounding floor(T*(1-r)^n) within the stated Power() tolerance, exact transfer custody->fee collector observed at the block boundary, clock = c+n*I <= T, shares untouched, non-chargeable assets unchanged; non-trivial = a deduction with n>=2 whole intervals or with a deposit since the previous deduction; distinct = distinct concrete op list",
	})
	register(&Spec{
		ID: "C14",
		Profile: func(tier string) Profile {
			p := takerateProfile()
			p.Name = "decay"
			p.ChRates = []string{"0.000000000000000001", "0.5", "0.9", "0.99", "1", "1.01", "2"}
			p.ChInts = []int64{0, 1, sec, 300 * sec, day}
			p.Weights[KUpdate] = 10
			p.Weights[KClaim] = 6
			p.Weights[KJail] = 1
			p.Weights[KUnjail] = 1
			p.Weights[GWeightChangeOut] = 4
			p.NAssetsMin = 2
			return tierSteps(p, tier)
		},
		Oracles: func() []Oracle {
			// "before its reward start time an asset carries no voting power": C10's target oracle
			// (which excludes warm-up assets) runs as a sub-check; "a weight change affects only
			// rewards received afterwards": C13's entitlement reference (weights at accrual time) runs
			// as a sub-check
			return []Oracle{OracleC14{}, Relabel{OracleC10{}, "C14", "voting-power:"}, Relabel{NewOracleC13(), "C14", "not-retroactive:"}}
		},
		NonTrivial: func(x *Exec) bool {
			return x.Has("c14:multi-interval-decay") || x.Has("c14:several-assets-decay-in-one-block")
		},
		Rule: "stateful rapid histories, 'decay' profile (change rates 1e-18..2, intervals 0..1d, >=2 assets, governance updates, sub-/multi-interval block steps); oracle = weight within range after every step; at every end-of-block each asset with a due decay step follows clamp(w*rate^n) (exact rational, stated Power() tolerance) and its clock advances by n whole intervals, others untouched; claims during warm-up pay nothing; non-trivial = a multi-interval decay step or several assets decaying in one block; distinct = distinct concrete op list. (Non-retroactivity of weight changes on rewards is decided by C13's reference.)",
	})
	register(&Spec{
		ID:      "C10",
		Profile: func(tier string) Profile { return tierSteps(powerProfile(), tier) },
		Oracles: func() []Oracle { return []Oracle{OracleC10{}} },
		NonTrivial: func(x *Exec) bool {
			return x.Has("c10:validator-with-target>0") && x.Has("c10:native-op-slash-or-status-in-block")
		},
		Rule: "stateful rapid histories, 'power' profile (alliance ops mixed with native delegate / partial and full undelegate / redelegate, real slashes, jail/unjail, max-validators changes, weight vectors incl. 0, warm-up assets, quiet blocks); oracle = at every block boundary each bonded validator's module stake equals the target recomputed from the boundary state; non-bonded validators untouched by the alliance end-blocker; non-trivial = a boundary with a positive target in a history where a block contained a native op, real slash or jail/unjail; distinct = distinct concrete op list",
	})
	register(&Spec{
		ID: "C11",
		Profile: func(tier string) Profile {
			p := powerProfile()
			p.HugeAmounts = true // 18-decimal assets: per-token reward indices at the 1e-18 resolution
			return tierSteps(p, tier)
		},
		Oracles: func() []Oracle { return []Oracle{&OracleC11{}} },
		NonTrivial: func(x *Exec) bool {
			return x.Has("c11:rebalanced-up-and-down") || x.Has("c11:real-slash-with-module-stake")
		},
		Rule: "stateful rapid histories, 'power' profile; oracle = staking-denom supply net of the module's own stake is unchanged by every alliance op (exactly) and by every block (to within one unit per adjusted validator, harness-minted fees accounted), real slashes only burn from the staking pools, module account holds no staking-denom coins at block boundaries, SupplyOf/TotalSupply equal supply minus the independently recomputed alliance-bonded amount; non-trivial = history with a rebalance up and a rebalance down, or a real slash of a validator carrying module stake; distinct = distinct concrete op list",
	})
}

func init() {
	register(&Spec{
		ID:         "C05",
		Profile:    func(tier string) Profile { return tierSteps(liveProfile(), tier) },
		Oracles:    func() []Oracle { return []Oracle{&OracleC05{}} },
		NonTrivial: func(x *Exec) bool { return x.Has("c05:probed-after-slash-or-takerate") },
		Rule:       "stateful rapid histories (core profile with more slashes); after every step enabledness probes on discarded branches: a funded account delegates 1 unit and 1e18 units of every asset to every validator, every position with a positive reported balance claims and undelegates that full balance; non-trivial = probes run in a state reached after >=1 slash or take-rate deduction with >=2 positions; distinct = distinct concrete op list",
	})
	register(&Spec{
		ID:         "C06",
		Profile:    func(tier string) Profile { return tierSteps(slashProfile(), tier) },
		Oracles:    func() []Oracle { return []Oracle{OracleC06{}} },
		NonTrivial: func(x *Exec) bool { return x.Has("c06:uneven-multi-validator") },
		Rule:       "stateful rapid histories, 'slash' profile; oracle = exact-rational metamorphic relation around every slash callback: positions on the slashed validator worth (1-f)*g*V, all others g*V, g = S/(S-f*s_v), staked total unchanged; non-trivial = slash of a validator holding the asset while >=2 validators hold it with uneven stake; distinct = distinct concrete op list",
	})
	register(&Spec{
		ID: "C08",
		Profile: func(tier string) Profile {
			p := slashProfile()
			p.Weights[KRedelegate] = 24
			p.Weights[KUndelegate] = 16
			return tierSteps(p, tier)
		},
		Oracles: func() []Oracle {
			return []Oracle{OracleC08{}, Relabel{OracleC07{}, "C08", "complete:"}, Relabel{OracleC06{}, "C08", "complete:"}}
		},
		NonTrivial: func(x *Exec) bool {
			return x.Has("c08:destination-position-gone") || x.Has("c08:destination-position-shrunk") || x.Has("c08:asset-deleted-while-redelegation-pending")
		},
		Rule: "stateful rapid histories, 'slash' profile biased to redelegate-then-undelegate / redelegate-onward shapes; oracle = the slashing callback returns nil without panic (callback level: return value; real staking slash: the error x/staking logs and swallows is captured from the logger), leaves the rebalance flag set, and its effects are complete (the C06 and C07 oracles run as sub-checks); non-trivial = slash with a pending redelegation out of the slashed validator whose destination position has since shrunk below the redelegated amount, disappeared, or whose asset was deleted; distinct = distinct concrete op list",
	})
	register(&Spec{
		ID: "C17",
		Profile: func(tier string) Profile {
			// odd shards explore the accepted-configuration space, even shards reachable states
			// after real slashes, jailing and drained assets (power profile, more exits)
			var shard int
			fmt.Sscan(os.Getenv("VERIF_SHARD"), &shard)
			if shard%2 == 0 {
				p := powerProfile()
				p.Name = "power+drain"
				p.Weights[KUndelegate] = 16
				p.Weights[KSlash] = 10
				p.Weights[KRedelegate] = 8
				p.Weights[KDelete] = 1
				return tierSteps(p, tier)
			}
			return tierSteps(configProfile(), tier)
		},
		Oracles:    func() []Oracle { return []Oracle{OracleC17{}} },
		NonTrivial: func(x *Exec) bool { return x.Has("c17:block-after-gov-change") },
		Rule:       "stateful rapid histories; odd shards: 'accepted-config' profile: parameter and asset values drawn from everything the governance handlers accept (durations 0, 1ns .. MaxInt64; rates 1e-18 .. 1e18; weights 0 .. 1e12) followed by blocks at all spacings; even shards: 'power' profile with real staking slashes (exchange rate != 1), jail/unjail, full exits and drained assets; oracle = alliance.EndBlocker returns nil and does not panic; non-trivial = a block executed after a governance message was accepted mid-history; distinct = distinct concrete op list",
	})
	register(&Spec{
		ID:      "C02",
		Profile: func(tier string) Profile { return tierSteps(unbondProfile(), tier) },
		Oracles: func() []Oracle { return []Oracle{OracleC02{}} },
		NonTrivial: func(x *Exec) bool {
			return x.Has("c02:payout-from-bucket>=2") || x.Has("c02:boundary-T==completion") && x.Has("c02:payout")
		},
		Rule: "stateful rapid histories, 'unbond' profile (one delegator favoured so that several undelegations share a (completion, delegator) bucket; unbonding-time changes; block steps landing at completion-1ns / = / +1ns; slashes while pending); oracle = history-derived ledger of pending unbondings vs delegator balance deltas at every end-of-block and vs the stored entries and index keys after every step; non-trivial = a payout from a bucket holding >=2 entries, or a history with a block boundary exactly at a completion time and a payout; distinct = distinct concrete op list",
	})
	register(&Spec{
		ID:      "C07",
		Profile: func(tier string) Profile { return tierSteps(slashProfile(), tier) },
		Oracles: func() []Oracle { return []Oracle{OracleC07{}} },
		NonTrivial: func(x *Exec) bool {
			return x.Has("slash-hit-unbonding") && x.Has("bucket-mixed") || x.Has("c07:redelegation-slashed")
		},
		Rule: "stateful rapid histories, 'slash' profile (callback-level and real staking slashes of every fraction, undelegations/redelegations of a favoured delegator packed into blocks); oracle = per-entry expectation from the history-derived ledger (floor(f*balance) once, scoped; fee-collector gain exact; destination share loss within the order-independent price bracket); non-trivial = a slash hitting a pending unbonding in a history with a mixed (validator/denom) bucket, or a slash hitting a pending redelegation; distinct = distinct concrete op list",
	})
	register(&Spec{
		ID:         "C04",
		Profile:    func(tier string) Profile { return tierSteps(baseProfile(), tier) },
		Oracles:    func() []Oracle { return []Oracle{OracleC04{}} },
		NonTrivial: func(x *Exec) bool { return x.Has("c04:distorted-ratio-multi-position") },
		Rule:       "stateful rapid histories (core profile: take-rate periods and slashes distort share:token ratios; amounts 1..1e30 and balance+-1); oracle = exact-rational position values before/after every successful delegate/undelegate/redelegate/claim; non-trivial = such an op executed while the asset's share:token ratio != 1 and >=2 positions exist in the asset; distinct = distinct concrete op list",
	})
	register(&Spec{
		ID: "C15",
		Profile: func(tier string) Profile {
			p := slashProfile()
			p.Name = "redelegate"
			p.Weights = map[string]int{KDelegate: 22, KUndelegate: 8, KRedelegate: 30, KClaim: 2, KBlock: 20, KSlashHook: 3, KSlash: 3, KUnbTime: 3, GShareFraction: 4, KReimport: 3, GFanInSlash: 4, GIntoSlashed: 3}
			p.InvalidPct = 4
			return tierSteps(p, tier)
		},
		Oracles: func() []Oracle { return []Oracle{OracleC15{}} },
		NonTrivial: func(x *Exec) bool {
			return x.Has("c15:redelegated") && (x.Has("c15:entries-sharing-block") || x.Has("c15:boundary-T==completion") || x.Has("c15:hop-attempt-while-pending"))
		},
		Rule: "stateful rapid histories, 'redelegate' profile (chains, fan-in, repeats within a block, full balance and +-1, boundary block times); oracle = exact value move, conservation, history-derived ledger vs records/index/queue after every step, transitive rule both ways; non-trivial = successful redelegation in a history with >=2 entries sharing a completion time, a block boundary at a completion instant, or an onward hop attempted while pending; distinct = distinct concrete op list",
	})
	register(&Spec{
		ID: "C20",
		Profile: func(tier string) Profile {
			p := unbondProfile()
			p.Name = "queries"
			p.MaxSteps = 25
			p.Weights[KRedelegate] = 18
			return tierSteps(p, tier)
		},
		Oracles: func() []Oracle {
			// the amounts and completion times the queries report are the ones end-of-block uses:
			// C02's ledger-vs-payout oracle runs as a sub-check
			return []Oracle{&OracleC20{}, Relabel{OracleC02{}, "C20", "payout:"}}
		},
		NonTrivial: func(x *Exec) bool { return x.Has("c20:bucket>=2") || x.Has("c20:delegator-multi-pending") },
		Rule:       "stateful rapid histories ('unbond' profile with more redelegations); after every step every unbonding/redelegation/delegation query is issued for every (delegator, validator, denom) of the world (paginated with varying limits) and compared with an independent enumeration of the primary records; undelegate(balance)/undelegate(balance+1) probes on discarded branches; contract bindings vs gRPC; non-trivial = state with a bucket of >=2 entries or a delegator with >=2 validators/denoms pending; distinct = distinct concrete op list",
	})
	register(&Spec{
		ID:      "C01",
		Profile: func(tier string) Profile { return tierSteps(baseProfile(), tier) },
		Oracles: func() []Oracle { return []Oracle{OracleC01{}} },
		NonTrivial: func(x *Exec) bool {
			return x.Has("ok:"+KUndelegate) && (x.Has("slash-hit-unbonding") || x.Has("takerate-deducted") || x.Has("unbonding-paid") || x.Has("ok:"+KDonate))
		},
		Rule: "stateful rapid histories over the full op alphabet (core profile); non-trivial = history with >=1 successful undelegation and >=1 of {slash while an unbonding from that validator is pending, take-rate deduction, matured payout, donation}; distinct = distinct hash of the concrete op list",
	})
	register(&Spec{
		ID: "C03",
		Profile: func(tier string) Profile {
			p := baseProfile()
			p.Weights[KValExit] = 1
			p.Weights[KValCreate] = 1
			return tierSteps(p, tier)
		},
		Oracles: func() []Oracle { return []Oracle{NewOracleC03()} },
		NonTrivial: func(x *Exec) bool {
			return x.Has("c03:asset-empty-after-stake") || x.Has("c03:clamp") || x.Has("takerate-deducted") && x.Has("ok:"+KUndelegate) || x.Has("slashed-with-stake") && x.Has("ok:"+KUndelegate)
		},
		Rule: "stateful rapid histories (core profile biased to full exits and +-1 amounts); non-trivial = an asset drained back to zero after having stake, or an undelegation/redelegation after a take-rate deduction or slash changed the share:token ratio; distinct = distinct concrete op list",
	})
}
