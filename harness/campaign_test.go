package harness

// campaign_test.go — entry points of the test binary:
//   TestCampaign  runs one rapid campaign for VERIF_PROP and writes shard statistics
//   TestReplay    re-executes a replay file (concrete ops) without rapid
//   TestFindings  reproduces the listed known findings from their replay files

import (
	"crypto/sha256"
	"encoding/hex"
	"encoding/json"
	"fmt"
	"os"
	"sort"
	"strings"
	"testing"

	"pgregory.net/rapid"
)

type ShardStats struct {
	Property      string             `json:"property"`
	Rule          string             `json:"rule"`
	Tier          string             `json:"tier"`
	Requested     int                `json:"requested"`
	Cases         int                `json:"cases"`
	Steps         int                `json:"steps"`
	Labels        map[string]int     `json:"labels"`     // number of cases carrying the label
	LabelHits     map[string]int     `json:"label_hits"` // total occurrences
	NonTrivial    []string           `json:"nontrivial_hashes"`
	Samples       [][]Op             `json:"samples"`
	Known         map[string]int     `json:"known"`
	Violation     *Violation         `json:"violation,omitempty"`
	ReplayFile    string             `json:"replay_file,omitempty"`
	Halted        int                `json:"halted"`
	MaxErrOverTol map[string]float64 `json:"max_err_over_tol,omitempty"`
	Extra         map[string]int     `json:"extra,omitempty"`
	Errs          map[string]int     `json:"errs,omitempty"`
}

type ReplayFile struct {
	Property  string     `json:"property"`
	Violation *Violation `json:"violation,omitempty"`
	Note      string     `json:"note,omitempty"`
	Ops       []Op       `json:"ops"`
}

func hashOps(ops []Op) string {
	b, _ := json.Marshal(ops)
	h := sha256.Sum256(b)
	return hex.EncodeToString(h[:8])
}

func envOr(k, d string) string {
	if v := os.Getenv(k); v != "" {
		return v
	}
	return d
}

var theWorld *World

func world(t *testing.T) *World {
	if theWorld == nil {
		theWorld = NewWorld(t)
	}
	return theWorld
}

// runOne executes f (which drives x) and converts an oracle violation into a value.
func runGuarded(x *Exec, f func()) (v *Violation) {
	defer func() {
		if r := recover(); r != nil {
			if vp, ok := r.(violationPanic); ok {
				v = vp.v
				return
			}
			panic(r)
		}
	}()
	f()
	return nil
}

func TestCampaign(t *testing.T) {
	prop := os.Getenv("VERIF_PROP")
	if prop == "" {
		t.Skip("VERIF_PROP not set")
	}
	spec := Specs[prop]
	if spec == nil {
		t.Fatalf("unknown property %s", prop)
	}
	tier := envOr("VERIF_TIER", "quick")
	w := world(t)
	shiftedWorldT = t
	prof := spec.Profile(tier)
	st := &ShardStats{Property: prop, Rule: spec.Rule, Tier: tier, Labels: map[string]int{}, LabelHits: map[string]int{}, Known: map[string]int{}, MaxErrOverTol: map[string]float64{}, Extra: map[string]int{}, Errs: map[string]int{}}
	seen := map[string]bool{}
	var failOps []Op
	var failV *Violation
	failed := false

	ok := t.Run("rapid", func(t *testing.T) {
		rapid.Check(t, func(rt *rapid.T) {
			x := NewExec(w, append([]Oracle{Labeler{}}, spec.Oracles()...)...)
			g := &Gen{t: rt, x: x, p: prof}
			v := runGuarded(x, g.RunCase)
			if !failed {
				st.Cases++
				st.Steps += len(x.Log)
				for l, n := range x.Labels {
					st.Labels[l]++
					st.LabelHits[l] += n
				}
				for k, n := range x.Known {
					st.Known[k] += n
				}
				for k, f := range x.ErrOverTol {
					if f > st.MaxErrOverTol[k] {
						st.MaxErrOverTol[k] = f
					}
				}
				if x.Halted != "" {
					st.Halted++
				}
				for i, r := range x.Ress {
					if !r.OK {
						m := r.Err + r.Panic
						if len(m) > 70 {
							m = m[:70]
						}
						st.Errs[x.Log[i].K+": "+m]++
						if fe := os.Getenv("VERIF_FIND_ERR"); fe != "" && strings.Contains(r.Err+r.Panic, fe) && st.Extra["found"] == 0 {
							st.Extra["found"] = 1
							for j := 0; j <= i; j++ {
								fmt.Printf("FOUND %3d %s -> %s %s%s\n", j, x.Log[j], x.Ress[j].Class(), x.Ress[j].Err, x.Ress[j].Panic)
							}
						}
					}
				}
				if v == nil && spec.NonTrivial(x) {
					h := hashOps(x.Log)
					if !seen[h] {
						seen[h] = true
						st.NonTrivial = append(st.NonTrivial, h)
						if len(st.Samples) < 3 {
							st.Samples = append(st.Samples, x.Log)
						}
					}
				}
			}
			if dg := os.Getenv("VERIF_DIGESTS"); dg != "" && v == nil && !failed {
				// cross-process determinism leg (C19): one line per case — digest of every store and
				// every result/event list plus the concrete history, compared by vcheck with the
				// lines written by a second process that runs the same rapid seed
				stores, results := runDigest(x)
				h := sha256.New()
				for _, n := range c19Stores {
					h.Write([]byte(n + "=" + stores[n] + ";"))
				}
				for _, r := range results {
					h.Write([]byte(r + "\n"))
				}
				ob, _ := json.Marshal(x.Log)
				if f, err := os.OpenFile(dg, os.O_APPEND|os.O_CREATE|os.O_WRONLY, 0o644); err == nil {
					fmt.Fprintf(f, "%s %s\n", hex.EncodeToString(h.Sum(nil)[:16]), ob)
					f.Close()
				}
			}
			if v != nil {
				failed = true
				failOps, failV = append([]Op{}, x.Log...), v
				rt.Fatalf("VIOLATION %s [%s] step %d: %s", v.Property, v.Oracle, v.Step, v.Msg)
			}
		})
	})
	_ = ok
	if failV != nil {
		failOps, failV = minimizeOps(w, spec, failOps, failV)
		st.Violation = failV
		rf := ReplayFile{Property: failV.Property, Violation: failV, Ops: failOps}
		b, _ := json.MarshalIndent(rf, "", " ")
		dir := envOr("VERIF_REPLAY_DIR", "/verif/replays")
		_ = os.MkdirAll(dir, 0o755)
		path := fmt.Sprintf("%s/%s-%s.json", dir, failV.Property, hashOps(failOps))
		if err := os.WriteFile(path, b, 0o644); err == nil {
			st.ReplayFile = path
		}
	}
	sort.Strings(st.NonTrivial)
	if out := os.Getenv("VERIF_OUT"); out != "" {
		b, _ := json.Marshal(st)
		if err := os.WriteFile(out, b, 0o644); err != nil {
			t.Fatalf("cannot write stats: %v", err)
		}
	}
}

// replayOps runs ops under the property's oracles and returns the violation, if any.
func replayOps(w *World, spec *Spec, ops []Op) (*Exec, *Violation) {
	x := NewExec(w, append([]Oracle{Labeler{}}, spec.Oracles()...)...)
	v := runGuarded(x, func() {
		for _, op := range ops {
			x.Apply(op)
			if x.Halted != "" {
				break
			}
		}
		x.End()
	})
	return x, v
}

func TestReplay(t *testing.T) {
	path := os.Getenv("VERIF_REPLAY")
	if path == "" {
		t.Skip("VERIF_REPLAY not set")
	}
	b, err := os.ReadFile(path)
	if err != nil {
		t.Fatal(err)
	}
	var rf ReplayFile
	if err := json.Unmarshal(b, &rf); err != nil {
		t.Fatal(err)
	}
	prop := envOr("VERIF_PROP", rf.Property)
	spec := Specs[prop]
	if spec == nil {
		t.Fatalf("unknown property %s", prop)
	}
	shiftedWorldT = t
	x, v := replayOps(world(t), spec, rf.Ops)
	if os.Getenv("VERIF_VERBOSE") != "" {
		for i, op := range x.Log {
			if i < len(x.Ress) {
				fmt.Printf("  %3d %s -> %s %s%s\n", i, op, x.Ress[i].Class(), x.Ress[i].Err, x.Ress[i].Panic)
			} else {
				fmt.Printf("  %3d %s -> (violation raised while executing)\n", i, op)
			}
		}
	}
	if os.Getenv("VERIF_DUMP") != "" {
		for _, l := range sortedKeys(x.Labels) {
			fmt.Printf("  LABEL %s x%d\n", l, x.Labels[l])
		}
		for _, l := range normalizedRun(x) {
			if !strings.HasPrefix(l, "result ") && !strings.HasPrefix(l, "balances ") {
				fmt.Println("  DUMP", l)
			}
		}
	}
	for k, n := range x.Known {
		fmt.Printf("REPLAY-KNOWN %s x%d\n", k, n)
	}
	if v != nil {
		fmt.Printf("REPLAY-VIOLATION property=%s oracle=%s step=%d %s\n", v.Property, v.Oracle, v.Step, v.Msg)
		t.Fail()
		return
	}
	fmt.Printf("REPLAY-OK property=%s ops=%d\n", prop, len(x.Log))
}

// minimizeOps is a second, concrete shrinking pass (delta debugging on the op list
// produced by rapid's own shrinking): ops are removed while the same oracle of the
// same property still fails. The result is what the replay file stores.
func minimizeOps(w *World, spec *Spec, ops []Op, v *Violation) ([]Op, *Violation) {
	same := func(cand []Op) *Violation {
		_, nv := replayOps(w, spec, cand)
		if nv != nil && nv.Property == v.Property && nv.Oracle == v.Oracle {
			return nv
		}
		return nil
	}
	if same(ops) == nil {
		return ops, v // not reproducible outside rapid: keep as is
	}
	// drop everything after the failing step
	if v.Step+1 < len(ops) {
		if nv := same(ops[:v.Step+1]); nv != nil {
			ops, v = ops[:v.Step+1], nv
		}
	}
	budget := 3000
	for chunk := len(ops) / 2; chunk >= 1; {
		removed := false
		for i := 0; i+chunk <= len(ops) && budget > 0; {
			cand := append(append([]Op{}, ops[:i]...), ops[i+chunk:]...)
			budget--
			if nv := same(cand); nv != nil {
				ops, v, removed = cand, nv, true
			} else {
				i++
			}
		}
		if !removed || chunk > 1 {
			if chunk == 1 && !removed {
				break
			}
			if chunk > 1 {
				chunk /= 2
			}
		}
		if budget <= 0 {
			break
		}
	}
	return ops, v
}
