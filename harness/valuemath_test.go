package harness

// valuemath_test.go — input-level leg of C04 (also run by C03): the share/token conversion
// helpers judged over generated share:token ratios, stake distributions and amounts, against
// exact rational arithmetic. The stateful campaigns reach these helpers only through the
// ratios their histories happen to produce; here every ratio from 1e-12 to 1e12, totals from
// 1 to 1e30 and amounts from 1 unit to the whole position are drawn directly.

import (
	"encoding/json"
	"math/big"
	"os"
	"testing"

	"cosmossdk.io/math"
	sdk "github.com/cosmos/cosmos-sdk/types"
	stakingtypes "github.com/cosmos/cosmos-sdk/x/staking/types"
	"pgregory.net/rapid"

	alliancetypes "github.com/terra-money/alliance/x/alliance/types"
)

func genBig(t *rapid.T, name string, maxK int) *big.Int {
	k := rapid.IntRange(0, maxK).Draw(t, name+"-k")
	m := rapid.Int64Range(1, 9_999).Draw(t, name+"-m")
	r := new(big.Int).Mul(big.NewInt(m), pow10(k))
	if rapid.IntRange(0, 3).Draw(t, name+"-odd") == 0 {
		r.Add(r, big.NewInt(rapid.Int64Range(0, 999).Draw(t, name+"-low")))
	}
	return r
}

func decFromRat(r *big.Rat) math.LegacyDec {
	n := new(big.Int).Mul(r.Num(), precisionReuse)
	n.Quo(n, r.Denom())
	return math.LegacyNewDecFromBigIntWithPrec(n, 18)
}

func TestValueMath(t *testing.T) {
	if os.Getenv("VERIF_VALUEMATH") == "" {
		t.Skip("VERIF_VALUEMATH not set")
	}
	n, distorted := 0, 0
	var fail string
	maxRatio := map[string]float64{}
	failf := func(rt *rapid.T, what, format string, args ...interface{}) {
		fail = what
		rt.Fatalf(what+": "+format, args...)
	}
	t.Run("rapid", func(t *testing.T) {
		rapid.Check(t, func(rt *rapid.T) {
			n++
			const denom = "aaa"
			T := genBig(rt, "T", 26)
			// asset-level shares per token: 1, or distorted by take rate (>1) / slashes (<1)
			ratios := []*big.Rat{big.NewRat(1, 1), big.NewRat(1, 1), big.NewRat(10, 9), big.NewRat(2, 1), big.NewRat(1000, 1), big.NewRat(1, 2), big.NewRat(19, 20), big.NewRat(1, 1000),
				big.NewRat(1_000_000, 1), big.NewRat(1, 1_000_000), big.NewRat(1234567, 1000000)}
			ra := ratios[rapid.IntRange(0, len(ratios)-1).Draw(rt, "asset-ratio")]
			rv := ratios[rapid.IntRange(0, len(ratios)-1).Draw(rt, "validator-ratio")]
			if ra.Cmp(big.NewRat(1, 1)) != 0 || rv.Cmp(big.NewRat(1, 1)) != 0 {
				distorted++
			}
			S := new(big.Rat).Mul(new(big.Rat).SetInt(T), ra) // asset's validator-share total
			// the validator holds a fraction of the asset
			fr := big.NewRat(rapid.Int64Range(1, 1000).Draw(rt, "val-frac"), 1000)
			vs := new(big.Rat).Mul(S, fr)
			valTokensExact := new(big.Rat).Mul(new(big.Rat).SetInt(T), fr)
			tds := new(big.Rat).Mul(valTokensExact, rv) // delegator shares on the validator
			if ratFloor(tds).Sign() == 0 || ratFloor(valTokensExact).Sign() == 0 {
				rt.Skip("validator worth less than a token or a share")
			}
			pf := big.NewRat(rapid.Int64Range(1, 1000).Draw(rt, "pos-frac"), 1000)
			ds := new(big.Rat).Mul(tds, pf) // the position's shares
			asset := alliancetypes.AllianceAsset{Denom: denom, TotalTokens: math.NewIntFromBigInt(T), TotalValidatorShares: decFromRat(S)}
			info := alliancetypes.NewAllianceValidatorInfo()
			info.ValidatorShares = sdk.NewDecCoins(sdk.NewDecCoinFromDec(denom, decFromRat(vs)))
			info.TotalDelegatorShares = sdk.NewDecCoins(sdk.NewDecCoinFromDec(denom, decFromRat(tds)))
			val := alliancetypes.AllianceValidator{Validator: &stakingtypes.Validator{}, AllianceValidatorInfo: &info}
			del := alliancetypes.Delegation{Denom: denom, Shares: decFromRat(ds)}
			// exact values from the (rounded) records actually handed to the module
			exactVal := new(big.Rat).Mul(decRat(sdk.DecCoins(info.ValidatorShares).AmountOf(denom)), new(big.Rat).SetInt(T))
			exactVal.Quo(exactVal, decRat(asset.TotalValidatorShares))
			exactPos := new(big.Rat).Mul(decRat(del.Shares), exactVal)
			exactPos.Quo(exactPos, decRat(sdk.DecCoins(info.TotalDelegatorShares).AmountOf(denom)))
			// tolerance of DESIGN 2.2: 2 + 20*T*1e-18*A, A = max(1,T/S) * max(1, valTokens/tds)
			A := big.NewRat(1, 1)
			if q := new(big.Rat).Quo(new(big.Rat).SetInt(T), decRat(asset.TotalValidatorShares)); q.Cmp(A) > 0 {
				A = q
			}
			if q := new(big.Rat).Quo(exactVal, decRat(sdk.DecCoins(info.TotalDelegatorShares).AmountOf(denom))); q.Cmp(big.NewRat(1, 1)) > 0 {
				A = new(big.Rat).Mul(A, q)
			}
			tol := new(big.Rat).Mul(new(big.Rat).SetInt(T), big.NewRat(20, 1_000_000_000_000_000_000))
			tol.Mul(tol, A)
			tol.Add(tol, big.NewRat(2, 1))
			note := func(name string, err *big.Rat) {
				r, _ := new(big.Rat).Quo(ratAbs(err), tol).Float64()
				if r > maxRatio[name] {
					maxRatio[name] = r
				}
			}
			// (a) reported balance = floor(exact + 0.01) within tol
			rep := alliancetypes.GetDelegationTokens(del, val, asset).Amount
			want := new(big.Rat).Add(exactPos, big.NewRat(1, 100))
			e := new(big.Rat).Sub(intRat(rep), new(big.Rat).SetInt(ratFloor(want)))
			note("reported-balance", e)
			if ratAbs(e).Cmp(tol) > 0 {
				failf(rt, "reported balance", "position worth %s is reported as %s (tolerance %s)", exactPos.FloatString(6), rep, tol.FloatString(3))
			}
			// (b) tokens -> shares -> tokens: never more than was put in (beyond tol), never less than x - tol - 1
			x := genBig(rt, "x", 26)
			if new(big.Rat).SetInt(x).Cmp(exactPos) > 0 {
				x = ratFloor(exactPos)
			}
			if x.Sign() > 0 {
				sh := alliancetypes.GetDelegationSharesFromTokens(val, asset, math.NewIntFromBigInt(x))
				wantSh := new(big.Rat).Mul(new(big.Rat).SetInt(x), decRat(sdk.DecCoins(info.TotalDelegatorShares).AmountOf(denom)))
				wantSh.Quo(wantSh, exactVal)
				// shares are priced at the validator's current share price (relative error of the 18-digit ratio)
				relSh := new(big.Rat).Quo(new(big.Rat).Sub(decRat(sh), wantSh), wantSh)
				relTol := new(big.Rat).Quo(tol, new(big.Rat).SetInt(x))
				if ratAbs(relSh).Cmp(new(big.Rat).Add(relTol, big.NewRat(1, 1_000_000_000_000))) > 0 {
					failf(rt, "share price", "%s tokens buy %s shares, exact price gives %s", x, sh, wantSh.FloatString(6))
				}
				back := alliancetypes.GetDelegationTokensWithShares(sh, val, asset).Amount
				e2 := new(big.Rat).Sub(intRat(back), new(big.Rat).SetInt(x))
				note("round-trip", e2)
				if e2.Cmp(tol) > 0 || e2.Cmp(new(big.Rat).Neg(new(big.Rat).Add(tol, big.NewRat(1, 1)))) < 0 {
					failf(rt, "round trip", "%s tokens -> %s shares -> %s tokens (tolerance %s)", x, sh, back, tol.FloatString(3))
				}
				// (c) validator shares for x tokens at the asset-wide ratio
				gv := alliancetypes.GetValidatorShares(asset, math.NewIntFromBigInt(x))
				wantV := new(big.Rat).Mul(new(big.Rat).SetInt(x), decRat(asset.TotalValidatorShares))
				wantV.Quo(wantV, new(big.Rat).SetInt(T))
				relV := new(big.Rat).Quo(new(big.Rat).Sub(decRat(gv), wantV), wantV)
				if ratAbs(relV).Cmp(new(big.Rat).Add(relTol, big.NewRat(1, 1_000_000_000_000))) > 0 {
					failf(rt, "validator shares", "%s tokens are %s validator shares, exact ratio gives %s", x, gv, wantV.FloatString(6))
				}
			}
			// (d) rounding-tolerant subtraction: exact, except that an overdraft below one share empties the record
			a1 := decFromRat(ds)
			var a2 math.LegacyDec
			switch rapid.IntRange(0, 3).Draw(rt, "sub-mode") {
			case 0:
				a2 = a1
			case 1:
				a2 = a1.Add(math.LegacyNewDecWithPrec(rapid.Int64Range(1, 999_999_999_999_999_999).Draw(rt, "over"), 18))
			case 2:
				a2 = a1.Sub(math.LegacyNewDecWithPrec(rapid.Int64Range(0, 999_999_999_999_999_999).Draw(rt, "under"), 18))
				if a2.IsNegative() {
					a2 = math.LegacyZeroDec()
				}
			default:
				a2 = a1.QuoInt64(2)
			}
			got := alliancetypes.SubtractDecCoinsWithRounding(sdk.NewDecCoins(sdk.NewDecCoinFromDec(denom, a1)), sdk.NewDecCoins(sdk.NewDecCoinFromDec(denom, a2))).AmountOf(denom)
			wantSub := a1.Sub(a2)
			if a2.GT(a1) {
				wantSub = math.LegacyZeroDec()
			}
			if !got.Equal(wantSub) {
				failf(rt, "rounding-tolerant subtraction", "%s - %s = %s, expected %s", a1, a2, got, wantSub)
			}
		})
	})
	if out := os.Getenv("VERIF_OUT"); out != "" {
		b, _ := json.Marshal(map[string]interface{}{"cases": n, "cases_with_distorted_ratio": distorted, "fail": fail, "max_err_over_tol": maxRatio})
		_ = os.WriteFile(out, b, 0o644)
	}
}
