package harness

// gen.go — rapid generators. Every random choice is a rapid draw; draws are resolved
// against the current (observed) state into concrete ops, so that a shrunk failing
// run yields a minimal concrete history.

import (
	"fmt"
	"math/big"
	"sort"
	"time"

	"cosmossdk.io/math"
	"pgregory.net/rapid"
)

// Profile selects the operation mix and configuration space of a campaign.
type Profile struct {
	Name     string
	Weights  map[string]int
	MaxSteps int
	MinSteps int
	// configuration menus
	UnbTimes   []int64
	Delays     []int64
	Intervals  []int64
	TakeRates  []string
	Weights_   []string // reward weights
	ChRates    []string
	ChInts     []int64
	NAssetsMin int
	NAssetsMax int
	Fracs      []string
	// SettleBeforeValueChange injects claim_all before slashes and before blocks (C12/C13 main campaigns).
	SettleBeforeValueChange bool
	// SettleSlashPct: with SettleBeforeValueChange, percentage of slashes that are preceded by claim_all
	// (0 means always). The remaining slashes hit positions with unclaimed rewards: the oracles
	// stop judging exact amounts for such histories but keep their structural checks.
	SettleSlashPct     int
	HugeAmounts        bool
	InvalidPct         int  // percentage of user ops deliberately targeting invalid inputs
	FocusDelPct        int  // percentage of delegator draws forced to delegator 0 (packs buckets)
	BoundaryPct        int  // percentage of block steps aimed at a pending completion instant (-1ns/=/+1ns); 0 = default 25
	RepeatPct          int  // percentage of undelegate/redelegate draws that act again on the position touched last; 0 = default 25
	RedelToExistingPct int  // percentage of redelegations aimed at a validator where the delegator already has a position; 0 = default 35
	FocusValPct        int  // percentage of delegate draws forced to validator 0 (several assets on one validator)
	GovFuzz            bool // governance messages with nil / negative / boundary / huge field values and all signers
	NoOverflowGuard    bool
}

// generator-only composite kinds
const (
	GQuietNative      = "g:quiet_native"
	GRedelThenExit    = "g:redelegate_then_exit"
	GExportAtBoundary = "g:export_at_block_boundary"
	GMultiRedelSlash  = "g:several_delegators_redelegate_then_slash"
	GPackBucket       = "g:several_undelegations_of_one_delegator_in_one_block"
	GDrainAsset       = "g:every_position_of_an_asset_exits"
	GWeightChangeOut  = "g:weight_change_while_a_staked_validator_is_out_of_the_set"
	GRedelIntoUnclaim = "g:redelegate_into_a_position_with_indexed_but_unclaimed_rewards"
	GShareFraction    = "g:withdraw_all_but_a_fraction_of_a_share_after_value_was_concentrated"
	GMultiUnbondSlash = "g:several_delegators_undelegate_from_one_validator_then_it_is_slashed"
	GDeletePending    = "g:asset_drained_and_deleted_while_its_unbondings_are_pending_then_slash"
	GReimportWhileOut = "g:export_import_while_a_validator_with_module_stake_is_out_and_emptied"
	GRecreateAsset    = "g:asset_with_reward_history_drained_deleted_and_whitelisted_again_with_a_warm_up"
	GUpdateThenDecay  = "g:governance_update_repeating_the_stored_weight_then_a_scheduled_weight_change"
	GFanInSlash       = "g:one_delegator_redelegates_from_two_sources_into_one_destination_in_one_block_then_a_source_is_slashed"
	GIntoSlashed      = "g:stake_moved_into_a_validator_whose_positions_were_slashed_to_almost_nothing"
)

const (
	ns  = int64(1)
	sec = int64(time.Second)
	day = 24 * int64(time.Hour)
)

func baseProfile() Profile {
	return Profile{
		Name: "core",
		Weights: map[string]int{
			KDelegate: 22, KUndelegate: 14, KRedelegate: 10, KClaim: 6, KBlock: 22, KSlashHook: 3, KSlash: 4,
			KDonate: 2, KNatDel: 2, KNatUndel: 2, KJail: 1, KUnjail: 1, KUpdate: 2, KUnbTime: 1, KCreate: 1, KDelete: 1,
			GDrainAsset: 2, GShareFraction: 2, KReimport: 2, GRedelThenExit: 4, GIntoSlashed: 2,
			GPackBucket: 3, GMultiUnbondSlash: 2,
		},
		MinSteps: 4, MaxSteps: 40,
		UnbTimes:   []int64{ns, sec, 3600 * sec, 21 * day},
		Delays:     []int64{0, 0, sec, 7 * day},
		Intervals:  []int64{sec, 300 * sec, day, 1},
		TakeRates:  []string{"0", "0", "0.000000000000000001", "0.001", "0.5", "0.999999"},
		Weights_:   []string{"0", "0.01", "0.5", "1", "5"},
		ChRates:    []string{"1", "1", "0.5", "0.99", "1.01"},
		ChInts:     []int64{0, sec, 300 * sec, day},
		NAssetsMin: 1, NAssetsMax: 3,
		Fracs:       []string{"0.0001", "0.01", "0.05", "0.05", "0.1", "0.333333333333333333", "0.5", "0.5", "0.9", "1"},
		HugeAmounts: true,
		InvalidPct:  8,
	}
}

type Gen struct {
	t    *rapid.T
	x    *Exec
	p    Profile
	n    int
	last *Op // last undelegate/redelegate drawn
}

func (g *Gen) label(s string) string { g.n++; return fmt.Sprintf("%s#%d", s, g.n) }

func (g *Gen) intn(name string, n int) int {
	if n <= 1 {
		return 0
	}
	return rapid.IntRange(0, n-1).Draw(g.t, g.label(name))
}

// del draws a delegator index, biased to delegator 0 when the profile packs buckets.
func (g *Gen) del() int {
	if g.p.FocusDelPct > 0 && g.pct("focus-del", g.p.FocusDelPct) {
		return 0
	}
	return g.intn("d", NumDels)
}

func (g *Gen) pickS(name string, xs []string) string { return xs[g.intn(name, len(xs))] }
func (g *Gen) pickI(name string, xs []int64) int64   { return xs[g.intn(name, len(xs))] }
func (g *Gen) pct(name string, p int) bool           { return g.intn(name, 100) < p }

var ten = big.NewInt(10)
var oneDec = math.LegacyOneDec()

func pow10(k int) *big.Int { return new(big.Int).Exp(ten, big.NewInt(int64(k)), nil) }

// amount draws an amount relative to a reference balance (may be nil).
func (g *Gen) amount(name string, bal *big.Int, allowOver bool) string {
	maxK := 12
	if g.p.HugeAmounts {
		maxK = 30
	}
	mode := g.intn(name+"-mode", 10)
	if bal == nil || bal.Sign() <= 0 {
		if mode < 2 {
			return "1"
		}
		k := g.intn(name+"-k", maxK+1)
		m := int64(g.intn(name+"-m", 9) + 1)
		return new(big.Int).Mul(big.NewInt(m), pow10(k)).String()
	}
	switch mode {
	case 0:
		return "1"
	case 1, 2, 3:
		return bal.String()
	case 4:
		if allowOver {
			return new(big.Int).Add(bal, big.NewInt(1)).String()
		}
		return bal.String()
	case 5:
		// leave a remainder of a few units (below one share when a share is worth several tokens)
		k := big.NewInt([]int64{1, 1, 1, 2, 3, 5, 9}[g.intn(name+"-rem", 7)])
		if bal.Cmp(k) > 0 {
			return new(big.Int).Sub(bal, k).String()
		}
		return "1"
	case 6:
		h := new(big.Int).Quo(bal, big.NewInt(2))
		if h.Sign() == 0 {
			return "1"
		}
		return h.String()
	case 7:
		// a random fraction of the balance
		num := int64(g.intn(name+"-num", 999) + 1)
		r := new(big.Int).Mul(bal, big.NewInt(num))
		r.Quo(r, big.NewInt(1000))
		if r.Sign() == 0 {
			return "1"
		}
		return r.String()
	default:
		k := g.intn(name+"-k", maxK+1)
		r := pow10(k)
		if r.Cmp(bal) > 0 && !allowOver {
			return bal.String()
		}
		return r.String()
	}
}

func (g *Gen) freshAmount(name string) string { return g.amount(name, nil, false) }

// existing asset denoms in store order; falls back to the menu.
func (g *Gen) assetDenoms() []string {
	s := g.x.Post()
	if len(s.AssetOrder) > 0 {
		return s.AssetOrder
	}
	return nil
}

func (g *Gen) anyDenom(name string) string {
	ds := g.assetDenoms()
	if len(ds) == 0 || g.pct(name+"-unknown", 2) {
		return g.pickS(name, append([]string{"nonasset"}, AssetDenoms...))
	}
	return g.pickS(name, ds)
}

var badDecs = []string{"nil", "-1", "-0.000000000000000001", "0", "1", "1.000000000000000001", "1000000000000000000000000000000"}

// fuzzGov perturbs a well-formed governance op: exactly one field (mode 1) or several (mode 2).
func (g *Gen) fuzzGov(op Op) Op {
	mode := g.intn("gov-mode", 10)
	if op.K == KUpdate && g.pct("gov-keep-weight", 30) {
		// repeat the stored weight (the update then "changes nothing" as far as the weight goes)
		if a, ok := g.x.Post().Assets[op.Denom]; ok {
			op.RW = a.RewardWeight.String()
		}
	}
	if mode < 4 {
		return op // well-formed
	}
	n := 1
	if mode >= 8 {
		n = 1 + g.intn("gov-n", 4)
	}
	for i := 0; i < n; i++ {
		switch g.intn("gov-field", 9) {
		case 0:
			op.Signer = g.pickS("signer", []string{"stranger", "malformed", "empty", "delegator", "module"})
			op.Legacy = false
		case 1:
			op.RW = g.pickS("bad-rw", badDecs)
		case 2:
			op.RWMin = g.pickS("bad-min", badDecs)
		case 3:
			op.RWMax = g.pickS("bad-max", badDecs)
		case 4:
			op.TakeRate = g.pickS("bad-take", badDecs)
		case 5:
			op.ChRate = g.pickS("bad-chrate", badDecs)
		case 6:
			op.ChInt = g.pickI("bad-chint", []int64{-1, -9223372036854775808, 0, 1, 9223372036854775807})
		case 7:
			op.Denom = g.pickS("bad-denom", []string{"", "a", "1abc", "nonasset", "aaa", "ibc/4A5B6C7D8E9F0A1B2C3D4E5F6A7B8C9D0E1F2A3B4C5D6E7F8A9B0C1D2E3F4A5B", "weth18", "a b"})
		case 8:
			// swap min and max
			op.RWMin, op.RWMax = op.RWMax, op.RWMin
		}
	}
	return op
}

func (g *Gen) createOp(denom string, signer string) Op {
	rw := g.pickS("rw", g.p.Weights_)
	min, max := "0", "10"
	switch g.intn("range", 4) {
	case 0:
		min, max = rw, rw
	case 1:
		min, max = "0", rw
	case 2:
		min, max = "0.001", "100"
		if rw == "0" {
			min = "0"
		}
	}
	return Op{K: KCreate, Denom: denom, Signer: signer, RW: rw, RWMin: min, RWMax: max,
		TakeRate: g.pickS("take", g.p.TakeRates), ChRate: g.pickS("chrate", g.p.ChRates), ChInt: g.pickI("chint", g.p.ChInts),
		Legacy: g.pct("legacy", 15)}
}

// Setup emits the configuration prefix of a case.
func (g *Gen) Setup() {
	x := g.x
	x.Apply(Op{K: KUnbTime, Dt: g.pickI("unbtime", g.p.UnbTimes)})
	x.Apply(Op{K: KParams, Signer: "auth", Delay: g.pickI("delay", g.p.Delays), Interval: g.pickI("interval", g.p.Intervals)})
	n := g.p.NAssetsMin + g.intn("nassets", g.p.NAssetsMax-g.p.NAssetsMin+1)
	// which denominations: a rotation of the menu (offsets 2 and 4 start at a related pair)
	rot := []int{0, 0, 0, 2, 4, 1, 3}[g.intn("denom-rotation", 7)]
	for i := 0; i < n; i++ {
		op := g.createOp(AssetDenoms[(rot+i)%len(AssetDenoms)], "auth")
		op.Legacy = false
		x.Apply(op)
	}
	x.Apply(Op{K: KBlock, Dt: sec})
}

// dt draws a block-time step, biased towards boundaries of pending completions.
func (g *Gen) dt() int64 {
	d := g.dtRaw()
	if g.p.NoOverflowGuard {
		return d
	}
	// Exclusion by construction of the listed finding F-C17b (decay with rate > 1
	// overflows after ~17 800 elapsed intervals and halts the chain): keep the number of
	// elapsed decay intervals of such assets below 5 000. Counted in the evidence.
	s := g.x.Post()
	for _, dn := range s.AssetOrder {
		a := s.Assets[dn]
		if a.RewardChangeInterval > 0 && a.RewardChangeRate.GT(oneDec) {
			elapsed := int64(s.Time.Sub(a.LastRewardChangeTime))
			if elapsed < 0 {
				elapsed = 0
			}
			maxDt := 5000*int64(a.RewardChangeInterval) - elapsed
			if maxDt < 1 {
				maxDt = 1
			}
			if d > maxDt {
				d = maxDt
				g.x.Label("excluded:F-C17b-overflow-guard")
			}
		}
	}
	return d
}

func (g *Gen) dtRaw() int64 {
	s := g.x.Post()
	var bounds []int64
	for _, b := range s.Unb {
		bounds = append(bounds, int64(b.Completion.Sub(s.Time)))
	}
	for _, r := range s.Redels {
		bounds = append(bounds, int64(r.Completion.Sub(s.Time)))
	}
	sort.Slice(bounds, func(i, j int) bool { return bounds[i] < bounds[j] })
	interval := int64(s.Params.TakeRateClaimInterval)
	mode := g.intn("dt-mode", 12)
	if g.p.BoundaryPct > 0 && len(bounds) > 0 {
		if g.pct("dt-boundary", g.p.BoundaryPct) {
			mode = 0
		} else {
			mode = 3 + g.intn("dt-mode2", 9)
		}
	}
	switch {
	case mode < 3 && len(bounds) > 0:
		b := bounds[g.intn("dt-bound", len(bounds))]
		d := b + int64(g.intn("dt-off", 3)-1)
		if d <= 0 {
			d = 1
		}
		return d
	case mode == 3:
		return ns
	case mode == 4:
		return sec
	case mode == 5:
		return 6 * sec
	case mode == 6 && interval > 0:
		return interval
	case mode == 7 && interval > 0:
		k := int64(g.intn("dt-k", 20) + 1)
		if interval < int64(400*day)/k {
			return interval*k + int64(g.intn("dt-j", 3)-1)*ns + 1
		}
		return interval
	case mode == 8:
		return int64(s.UnbondingTime) + 1
	case mode == 9:
		return 400 * day
	default:
		return int64(g.intn("dt-s", 3600)+1) * sec
	}
}

func (g *Gen) fees() string {
	if g.pct("nofees", 25) {
		return ""
	}
	denoms := []string{FeeDenom, g.x.W.BondDenom}
	k := g.intn("fee-k", 13)
	m := g.intn("fee-m", 9) + 1
	amt := new(big.Int).Mul(big.NewInt(int64(m)), pow10(k))
	out := amt.String() + denoms[g.intn("fee-denom", len(denoms))]
	if g.pct("fee-two", 30) {
		k2 := g.intn("fee-k2", 10)
		other := FeeDenom
		if out[len(out)-len(FeeDenom):] == FeeDenom {
			other = g.x.W.BondDenom
		}
		out += "," + pow10(k2).String() + other
	}
	return out
}

func (g *Gen) frac() string {
	if g.pct("frac-rand", 30) {
		// random 18-digit decimal in (0,1]
		hi := rapid.Int64Range(1, 1_000_000_000).Draw(g.t, g.label("frac-hi"))
		lo := rapid.Int64Range(0, 999_999_999).Draw(g.t, g.label("frac-lo"))
		if hi == 1 && lo == 0 {
			lo = 1 // fractions are in (0,1]
		}
		return fmt.Sprintf("0.%09d%09d", hi-1, lo)
	}
	return g.pickS("frac", g.p.Fracs)
}

// slashTarget draws the validator to slash, biased to validators that have pending
// unbondings / redelegations out of them or alliance stake (where slashing has effects).
func (g *Gen) slashTarget(s *Snap) int {
	nv := len(g.x.W.Vals)
	if g.pct("slash-targeted", 70) {
		seen := map[int]bool{}
		var cands []int
		add := func(v int) {
			if v >= 0 && !seen[v] {
				seen[v] = true
				cands = append(cands, v)
			}
		}
		for _, b := range s.Unb {
			for _, e := range b.Entries {
				add(e.V)
			}
		}
		for _, r := range s.Redels {
			add(r.S)
		}
		if len(cands) == 0 || g.pct("slash-staked", 30) {
			for _, d := range s.Dels {
				add(d.V)
			}
		}
		if len(cands) > 0 {
			sort.Ints(cands)
			return cands[g.intn("slash-cand", len(cands))]
		}
	}
	return g.intn("v", nv)
}

// Step draws and applies one op. Returns false if no op could be produced.
func (g *Gen) Step() {
	x := g.x
	s := x.Post()
	kinds := make([]string, 0, len(g.p.Weights))
	for _, k := range sortedKeys(g.p.Weights) {
		if g.p.Weights[k] > 0 {
			kinds = append(kinds, k)
		}
	}
	total := 0
	for _, k := range kinds {
		total += g.p.Weights[k]
	}
	r := g.intn("kind", total)
	kind := ""
	for _, k := range kinds {
		if r < g.p.Weights[k] {
			kind = k
			break
		}
		r -= g.p.Weights[k]
	}
	nv := len(x.W.Vals)
	invalid := g.pct("invalid", g.p.InvalidPct)
	switch kind {
	case KDelegate:
		op := Op{K: KDelegate, D: g.del(), V: g.intn("v", nv), Denom: g.anyDenom("denom"), Amt: g.freshAmount("amt")}
		if g.p.FocusValPct > 0 && g.pct("focus-val", g.p.FocusValPct) {
			op.V = 0
		}
		x.Apply(op)
	case KUndelegate, KRedelegate, KClaim:
		var op Op
		if len(s.Dels) == 0 && !invalid {
			// nothing to act on yet: open a position instead
			x.Apply(Op{K: KDelegate, D: g.del(), V: g.intn("v", nv), Denom: g.anyDenom("denom"), Amt: g.freshAmount("amt")})
			return
		}
		if invalid {
			op = Op{K: kind, D: g.intn("d", NumDels), V: g.intn("v", nv), W: g.intn("w", nv), Denom: g.anyDenom("denom"), Amt: g.freshAmount("amt")}
		} else {
			cands := s.Dels
			rp := g.p.RepeatPct
			if rp == 0 {
				rp = 25
			}
			if g.last != nil && g.pct("repeat-target", rp) {
				// act again on the position touched last (packs several entries into one bucket)
				var same []DelSnap
				for _, d := range s.Dels {
					if d.D == g.last.D && d.Denom == g.last.Denom && (d.V == g.last.V || d.V == g.last.W) {
						same = append(same, d)
					}
				}
				if len(same) > 0 {
					cands = same
				}
			} else if g.p.FocusDelPct > 0 && g.pct("focus-pos", g.p.FocusDelPct) {
				var mine []DelSnap
				for _, d := range s.Dels {
					if d.D == 0 {
						mine = append(mine, d)
					}
				}
				if len(mine) > 0 {
					cands = mine
				}
			}
			d := cands[g.intn("pos", len(cands))]
			if d.D < 0 || d.D == 100 || d.V < 0 {
				return
			}
			bal := s.Reported(d)
			op = Op{K: kind, D: d.D, V: d.V, Denom: d.Denom, Amt: g.amount("amt", bal, true)}
			if kind != KClaim && g.pct("leave-part-of-a-share", 15) {
				// when a delegator share is worth several tokens (value concentrated by a slash
				// elsewhere): withdraw all but a fraction of ONE share
				if tds, ok := s.Vals[d.V].DelShares[d.Denom]; ok && tds.IsPositive() {
					tps := new(big.Rat).Quo(s.ValTokens(d.V, d.Denom), decRat(tds))
					r := ratFloor(new(big.Rat).Mul(tps, big.NewRat(int64(3+g.intn("share-frac", 6)), 10)))
					if r.Sign() > 0 && bal.Cmp(r) > 0 {
						op.Amt = new(big.Int).Sub(bal, r).String()
						g.x.Label("gen:leave-part-of-a-share:" + kind)
					}
				}
			}
			if kind == KRedelegate {
				op.W = (d.V + 1 + g.intn("w", nv-1)) % nv
				rp := g.p.RedelToExistingPct
				if rp == 0 {
					rp = 35
				}
				if g.pct("redel-to-existing", rp) {
					var others []int
					for _, o := range s.Dels {
						if o.D == d.D && o.Denom == d.Denom && o.V != d.V && o.V >= 0 {
							others = append(others, o.V)
						}
					}
					if len(others) > 0 {
						sort.Ints(others)
						op.W = others[g.intn("w-existing", len(others))]
					}
				}
				if g.pct("same-val", 2) {
					op.W = d.V
				}
			}
		}
		if kind == KClaim {
			op.Amt = ""
		}
		if kind != KRedelegate {
			op.W = 0
		}
		if kind != KClaim {
			cp := op
			g.last = &cp
		}
		x.Apply(op)
	case KClaimAll:
		x.Apply(Op{K: KClaimAll})
	case KBlock:
		if g.p.SettleBeforeValueChange {
			x.Apply(Op{K: KClaimAll})
		}
		x.Apply(Op{K: KBlock, Dt: g.dt(), Fees: g.fees()})
	case KSlashHook:
		if g.p.SettleBeforeValueChange && (g.p.SettleSlashPct == 0 || g.pct("settle-slash", g.p.SettleSlashPct)) {
			x.Apply(Op{K: KClaimAll})
		}
		x.Apply(Op{K: KSlashHook, V: g.slashTarget(s), Frac: g.frac()})
	case KSlash:
		if g.p.SettleBeforeValueChange && (g.p.SettleSlashPct == 0 || g.pct("settle-slash", g.p.SettleSlashPct)) {
			x.Apply(Op{K: KClaimAll})
		}
		v := g.slashTarget(s)
		power := s.Vals[v].Tokens.BigInt()
		power = new(big.Int).Quo(power, big.NewInt(1_000_000))
		p := power.Int64()
		switch g.intn("power-mode", 4) {
		case 0:
			p = p*2 + 1
		case 1:
			if p > 1 {
				p = p / 2
			}
		}
		x.Apply(Op{K: KSlash, V: v, Frac: g.frac(), Power: p, Age: int64(g.intn("age", 2)), Jail: g.pct("jail", 40)})
	case KJail:
		x.Apply(Op{K: KJail, V: g.intn("v", nv)})
	case KUnjail:
		x.Apply(Op{K: KUnjail, V: g.intn("v", nv)})
	case KDonate:
		dn := g.anyDenom("denom")
		if g.pct("donate-bond-denom", 25) {
			dn = x.W.BondDenom // staking tokens sent to the module account are burned at the end of the block
		}
		x.Apply(Op{K: KDonate, Denom: dn, Amt: g.freshAmount("amt")})
	case KNatDel:
		x.Apply(Op{K: KNatDel, D: g.intn("nd", 2), V: g.intn("v", nv), Amt: new(big.Int).Mul(big.NewInt(int64(g.intn("m", 9)+1)), pow10(g.intn("k", 9))).String()})
	case KNatUndel, KNatRedel:
		d := g.intn("nd", 2)
		v := g.intn("v", nv)
		amt := "1000000"
		del, err := x.W.App.StakingKeeper.GetDelegation(x.Ctx, x.natAcc(d), x.W.Vals[v])
		if err == nil {
			val, err2 := x.W.App.StakingKeeper.GetValidator(x.Ctx, x.W.Vals[v])
			if err2 == nil {
				tok := val.TokensFromShares(del.Shares).TruncateInt().BigInt()
				amt = g.amount("namt", tok, false)
			}
		}
		x.Apply(Op{K: kind, D: d, V: v, W: (v + 1 + g.intn("w", nv-1)) % nv, Amt: amt})
	case GRedelThenExit:
		// fan-out from one position to two destinations, leave one destination (fully or
		// partly), then slash the source while both redelegations are pending
		if len(s.Dels) == 0 {
			x.Apply(Op{K: KDelegate, D: g.del(), V: g.intn("v", nv), Denom: g.anyDenom("denom"), Amt: g.freshAmount("amt")})
			return
		}
		d := s.Dels[g.intn("pos", len(s.Dels))]
		if d.D < 0 || d.D == 100 || d.V < 0 {
			return
		}
		bal := s.Reported(d)
		if bal.Cmp(big.NewInt(4)) < 0 {
			return
		}
		part := new(big.Int).Quo(bal, big.NewInt(int64(3+g.intn("div", 3))))
		b := (d.V + 1 + g.intn("b", nv-1)) % nv
		c := (d.V + 1 + g.intn("c", nv-1)) % nv
		x.Apply(Op{K: KRedelegate, D: d.D, V: d.V, W: b, Denom: d.Denom, Amt: part.String()})
		if g.pct("second-hop-later", 30) {
			x.Apply(Op{K: KBlock, Dt: g.dt(), Fees: g.fees()})
		}
		x.Apply(Op{K: KRedelegate, D: d.D, V: d.V, W: c, Denom: d.Denom, Amt: part.String()})
		// leave one of the destinations
		leave := b
		if g.pct("leave-second", 50) {
			leave = c
		}
		if g.pct("bystander-on-destination", 50) {
			// somebody else holds the asset on the destination that is being left
			x.Apply(Op{K: KDelegate, D: (d.D + 1 + g.intn("bystander", NumDels-1)) % NumDels, V: leave, Denom: d.Denom, Amt: g.freshAmount("amt")})
		}
		s2 := x.Post()
		if ld, ok := s2.FindDel(d.D, leave, d.Denom); ok {
			amt := s2.Reported(ld)
			if g.pct("partial-exit", 45) {
				// leave a half, a tenth or a hundredth behind
				keep := []int64{2, 2, 10, 100}[g.intn("keep-div", 4)]
				amt = new(big.Int).Sub(amt, new(big.Int).Quo(amt, big.NewInt(keep)))
			}
			if amt.Sign() > 0 {
				if g.pct("exit-by-redelegate", 15) {
					x.Apply(Op{K: KRedelegate, D: d.D, V: leave, W: (leave + 1) % nv, Denom: d.Denom, Amt: amt.String()})
				} else {
					x.Apply(Op{K: KUndelegate, D: d.D, V: leave, Denom: d.Denom, Amt: amt.String()})
				}
			}
		}
		if g.pct("slash-now", 80) {
			if g.pct("hook", 60) {
				x.Apply(Op{K: KSlashHook, V: d.V, Frac: g.frac()})
			} else {
				p := new(big.Int).Quo(s.Vals[d.V].Tokens.BigInt(), big.NewInt(1_000_000)).Int64()
				x.Apply(Op{K: KSlash, V: d.V, Frac: g.frac(), Power: p, Age: int64(g.intn("age", 2))})
			}
		}
	case GDrainAsset:
		// every position of one asset undelegates its full reported balance (the asset's staked
		// total returns to zero, or to rounding dust), so that re-entry is exercised afterwards
		ds := g.assetDenoms()
		if len(ds) == 0 {
			return
		}
		dn := ds[g.intn("drain-denom", len(ds))]
		g.drain(dn)
		// re-entry: somebody delegates the drained asset again, preferably to a validator on which a
		// worthless position stayed behind
		if g.pct("drain-reenter", 60) {
			v := g.intn("v", nv)
			for _, d := range x.Post().Dels {
				if d.Denom == dn && d.V >= 0 && g.pct("reenter-stale", 70) {
					v = d.V
					break
				}
			}
			x.Apply(Op{K: KDelegate, D: g.del(), V: v, Denom: dn, Amt: g.freshAmount("amt")})
		}
	case GPackBucket:
		// one delegator undelegates 2-3 times within one block, from the same or from other
		// positions (validators / denoms): all entries share one (completion, delegator) bucket
		if len(s.Dels) == 0 {
			x.Apply(Op{K: KDelegate, D: g.del(), V: g.intn("v", nv), Denom: g.anyDenom("denom"), Amt: g.freshAmount("amt")})
			return
		}
		first := s.Dels[g.intn("pos", len(s.Dels))]
		if first.D < 0 || first.D == 100 {
			return
		}
		n := 2 + g.intn("n", 2)
		for i := 0; i < n; i++ {
			cur := x.Post()
			var mine []DelSnap
			for _, d := range cur.Dels {
				if d.D == first.D && d.V >= 0 {
					mine = append(mine, d)
				}
			}
			if len(mine) == 0 {
				break
			}
			d := mine[g.intn("which", len(mine))]
			if g.pct("same-position", 40) {
				if sd, ok := cur.FindDel(first.D, first.V, first.Denom); ok {
					d = sd
				}
			}
			bal := cur.Reported(d)
			if bal.Sign() <= 0 {
				continue
			}
			amt := new(big.Int).Quo(bal, big.NewInt(int64(2+g.intn("div", 4))))
			if amt.Sign() == 0 || g.pct("full", 15) {
				amt = bal
			}
			x.Apply(Op{K: KUndelegate, D: d.D, V: d.V, Denom: d.Denom, Amt: amt.String()})
		}
	case GMultiRedelSlash:
		// several delegators move stake of one asset from validator a to validator b while the
		// source can still be slashed, then the source is slashed
		dn := g.anyDenom("denom")
		a := g.intn("a", nv)
		b := (a + 1 + g.intn("b", nv-1)) % nv
		k := 2 + g.intn("k", 3)
		for d := 0; d < k && d < NumDels; d++ {
			cur := x.Post()
			if _, ok := cur.FindDel(d, a, dn); !ok {
				x.Apply(Op{K: KDelegate, D: d, V: a, Denom: dn, Amt: g.freshAmount("amt")})
			}
			cur = x.Post()
			if pos, ok := cur.FindDel(d, a, dn); ok {
				bal := cur.Reported(pos)
				if bal.Sign() > 0 {
					x.Apply(Op{K: KRedelegate, D: d, V: a, W: b, Denom: dn, Amt: g.amount("ramt", bal, false)})
				}
			}
			if g.pct("block-between", 20) {
				x.Apply(Op{K: KBlock, Dt: g.dt(), Fees: g.fees()})
			}
		}
		if g.pct("hook", 60) {
			x.Apply(Op{K: KSlashHook, V: a, Frac: g.frac()})
		} else {
			p := new(big.Int).Quo(x.Post().Vals[a].Tokens.BigInt(), big.NewInt(1_000_000)).Int64()
			x.Apply(Op{K: KSlash, V: a, Frac: g.frac(), Power: p, Age: int64(g.intn("age", 2))})
		}
	case GFanInSlash:
		// one delegator holds the asset on a and b and moves both into c within one block (one merged
		// record, two per-source index entries); another delegator sits on c; then the first or the
		// second source is slashed, or the block runs to maturity
		dn := g.anyDenom("denom")
		D := g.del()
		a := g.intn("fi-a", nv)
		b := (a + 1 + g.intn("fi-b", nv-1)) % nv
		c := a
		for c == a || c == b {
			c = g.intn("fi-c", nv)
		}
		for _, v := range []int{a, b} {
			if _, ok := x.Post().FindDel(D, v, dn); !ok {
				x.Apply(Op{K: KDelegate, D: D, V: v, Denom: dn, Amt: g.freshAmount("amt")})
			}
		}
		if g.pct("fi-bystander", 70) {
			x.Apply(Op{K: KDelegate, D: (D + 1) % NumDels, V: c, Denom: dn, Amt: g.freshAmount("amt")})
		}
		for _, v := range []int{a, b} {
			cur := x.Post()
			if pos, ok := cur.FindDel(D, v, dn); ok {
				if bal := cur.Reported(pos); bal.Sign() > 0 {
					x.Apply(Op{K: KRedelegate, D: D, V: v, W: c, Denom: dn, Amt: g.amount("ramt", bal, false)})
				}
			}
		}
		switch g.intn("fi-then", 4) {
		case 0:
			x.Apply(Op{K: KSlashHook, V: a, Frac: g.frac()})
		case 1, 2:
			x.Apply(Op{K: KSlashHook, V: b, Frac: g.frac()})
		default:
			x.Apply(Op{K: KBlock, Dt: int64(x.Post().UnbondingTime) + 1, Fees: g.fees()})
			x.Apply(Op{K: KBlock, Dt: sec})
		}
	case GIntoSlashed:
		// a position on validator b is slashed to (almost) nothing — its shares stay; then somebody
		// else moves or delegates stake into b
		dn := g.anyDenom("denom")
		b := g.intn("is-b", nv)
		a := (b + 1 + g.intn("is-a", nv-1)) % nv
		D := g.del()
		E := (D + 1 + g.intn("is-e", NumDels-1)) % NumDels
		small := new(big.Int).Mul(big.NewInt(int64(g.intn("is-m", 9)+1)), pow10(2+g.intn("is-k", 6)))
		x.Apply(Op{K: KDelegate, D: D, V: b, Denom: dn, Amt: small.String()})
		x.Apply(Op{K: KDelegate, D: E, V: a, Denom: dn, Amt: new(big.Int).Mul(small, big.NewInt(int64(1+g.intn("is-times", 20)))).String()})
		x.Apply(Op{K: KSlashHook, V: b, Frac: g.pickS("is-frac", []string{"0.99999975", "0.999999999", "0.9999", "0.99", "1"})})
		cur := x.Post()
		if pos, ok := cur.FindDel(E, a, dn); ok {
			bal := cur.Reported(pos)
			if bal.Sign() > 0 {
				amt := new(big.Int).Quo(bal, big.NewInt(int64(1+g.intn("is-div", 3))))
				if amt.Sign() == 0 {
					amt = bal
				}
				if g.pct("is-redelegate", 65) {
					x.Apply(Op{K: KRedelegate, D: E, V: a, W: b, Denom: dn, Amt: amt.String()})
				} else {
					x.Apply(Op{K: KDelegate, D: E, V: b, Denom: dn, Amt: amt.String()})
				}
			}
		}
	case GUpdateThenDecay:
		// an update that repeats the stored weight (so "nothing changes") but carries another range
		// (equal / excluding the weight / swapped bounds / nil) and an active decay schedule; if the
		// module accepts it, the next scheduled weight change must still run
		ds := g.assetDenoms()
		if len(ds) == 0 {
			return
		}
		dn := ds[g.intn("ud-denom", len(ds))]
		a := x.Post().Assets[dn]
		w0 := a.RewardWeight
		op := Op{K: KUpdate, Denom: dn, Signer: "auth", RW: w0.String(), TakeRate: a.TakeRate.String(),
			ChRate: g.pickS("ud-chrate", []string{"0.5", "0.9", "0.99", "1.01", "2"}), ChInt: g.pickI("ud-chint", []int64{1, sec, 300 * sec, day}),
			Legacy: g.pct("legacy", 20)}
		switch g.intn("ud-range", 6) {
		case 0:
			op.RWMin, op.RWMax = w0.String(), w0.String()
		case 1:
			op.RWMin, op.RWMax = w0.Add(oneDec).String(), w0.Add(oneDec).Add(oneDec).String() // excludes the weight from below
		case 2:
			op.RWMin, op.RWMax = "0", w0.Quo(math.LegacyNewDec(2)).String() // excludes it from above
		case 3:
			op.RWMin, op.RWMax = w0.Add(oneDec).String(), "0" // swapped bounds
		case 4:
			op.RWMin, op.RWMax = "nil", w0.String()
		default:
			op.RWMin, op.RWMax = "0", "100"
		}
		x.Apply(op)
		x.Apply(Op{K: KBlock, Dt: op.ChInt*int64(1+g.intn("ud-k", 3)) + 1, Fees: g.fees()})
		x.Apply(Op{K: KBlock, Dt: g.dt(), Fees: g.fees()})
	case GRecreateAsset:
		// an asset that has earned rewards (indices on its validators) is left by everybody, deleted
		// and whitelisted again with a warm-up; new positions are opened during the warm-up on the
		// same validators; after the warm-up they claim
		ds := g.assetDenoms()
		if len(ds) == 0 {
			return
		}
		dn := ds[g.intn("ra-denom", len(ds))]
		var holders []int
		for _, d := range x.Post().DelsOfAsset(dn) {
			if d.V >= 0 {
				holders = append(holders, d.V)
			}
		}
		if len(holders) == 0 {
			v := g.intn("v", nv)
			x.Apply(Op{K: KDelegate, D: g.del(), V: v, Denom: dn, Amt: g.freshAmount("amt")})
			holders = append(holders, v)
		}
		x.Apply(Op{K: KBlock, Dt: sec, Fees: "1000000" + FeeDenom})
		x.Apply(Op{K: KBlock, Dt: sec, Fees: g.fees()})
		x.Apply(Op{K: KClaimAll})
		g.drain(dn)
		x.Apply(Op{K: KDelete, Denom: dn, Signer: "auth"})
		cur := x.Post()
		delay := g.pickI("ra-delay", []int64{2 * sec, 10 * sec, 3600 * sec})
		x.Apply(Op{K: KParams, Signer: "auth", Delay: delay, Interval: int64(cur.Params.TakeRateClaimInterval)})
		cop := g.createOp(dn, "auth")
		cop.Legacy = false
		x.Apply(cop)
		for i, n := 0, 1+g.intn("ra-n", 2); i < n; i++ {
			x.Apply(Op{K: KDelegate, D: g.del(), V: holders[g.intn("ra-holder", len(holders))], Denom: dn, Amt: g.freshAmount("amt")})
		}
		x.Apply(Op{K: KBlock, Dt: delay + 1, Fees: g.fees()})
		if g.pct("ra-extra-block", 50) {
			x.Apply(Op{K: KBlock, Dt: sec, Fees: g.fees()})
		}
		for _, d := range x.Post().DelsOfAsset(dn) {
			if d.D >= 0 && d.D != 100 && d.V >= 0 {
				x.Apply(Op{K: KClaim, D: d.D, V: d.V, Denom: dn})
			}
		}
	case GReimportWhileOut:
		// a bonded validator carrying alliance-minted stake is jailed; while it is out every alliance
		// position on it leaves; the module state goes through export/import; the validator comes back
		var cands []int
		for i, v := range s.Vals {
			if v.HasModDel && v.Status == 3 && !v.Jailed {
				cands = append(cands, i)
			}
		}
		if len(cands) == 0 {
			x.Apply(Op{K: KDelegate, D: g.del(), V: g.intn("v", nv), Denom: g.anyDenom("denom"), Amt: g.freshAmount("amt")})
			x.Apply(Op{K: KBlock, Dt: g.dt(), Fees: g.fees()})
			return
		}
		v := cands[g.intn("ro-v", len(cands))]
		x.Apply(Op{K: KJail, V: v})
		x.Apply(Op{K: KBlock, Dt: sec, Fees: g.fees()})
		for i := 0; i < 8; i++ {
			cur := x.Post()
			var pos *DelSnap
			for j := range cur.Dels {
				if cur.Dels[j].V == v && cur.Dels[j].D >= 0 && cur.Dels[j].D != 100 && cur.Reported(cur.Dels[j]).Sign() > 0 {
					pos = &cur.Dels[j]
					break
				}
			}
			if pos == nil {
				break
			}
			if r := x.Apply(Op{K: KUndelegate, D: pos.D, V: v, Denom: pos.Denom, Amt: cur.Reported(*pos).String()}); !r.OK {
				break
			}
		}
		x.Apply(Op{K: KBlock, Dt: sec, Fees: g.fees()})
		x.Apply(Op{K: KReimport})
		if g.pct("ro-block", 50) {
			x.Apply(Op{K: KBlock, Dt: sec, Fees: g.fees()})
		}
		x.Apply(Op{K: KUnjail, V: v})
		x.Apply(Op{K: KBlock, Dt: sec, Fees: g.fees()})
		x.Apply(Op{K: KBlock, Dt: sec})
	case GDeletePending:
		// everybody leaves an asset, governance deletes it while the unbondings are still pending,
		// a validator they came from is slashed, then the entries mature
		ds := g.assetDenoms()
		if len(ds) == 0 {
			return
		}
		dn := ds[g.intn("dp-denom", len(ds))]
		if len(x.Post().DelsOfAsset(dn)) == 0 {
			x.Apply(Op{K: KDelegate, D: g.del(), V: g.intn("v", nv), Denom: dn, Amt: g.freshAmount("amt")})
			if g.pct("dp-second", 50) {
				x.Apply(Op{K: KDelegate, D: g.del(), V: g.intn("v", nv), Denom: dn, Amt: g.freshAmount("amt")})
			}
		}
		g.drain(dn)
		x.Apply(Op{K: KDelete, Denom: dn, Signer: "auth", Legacy: g.pct("legacy", 15)})
		if g.pct("dp-block", 30) {
			x.Apply(Op{K: KBlock, Dt: sec, Fees: g.fees()})
		}
		cur := x.Post()
		v := g.slashTarget(cur)
		for _, b := range cur.Unb {
			for _, e := range b.Entries {
				if e.Denom == dn && e.V >= 0 && g.pct("dp-target", 60) {
					v = e.V
				}
			}
		}
		if g.pct("hook", 60) {
			x.Apply(Op{K: KSlashHook, V: v, Frac: g.frac()})
		} else {
			p := new(big.Int).Quo(cur.Vals[v].Tokens.BigInt(), big.NewInt(1_000_000)).Int64()
			x.Apply(Op{K: KSlash, V: v, Frac: g.frac(), Power: p, Age: int64(g.intn("age", 2))})
		}
		if g.pct("dp-recreate", 25) {
			x.Apply(g.createOp(dn, "auth"))
		}
		x.Apply(Op{K: KBlock, Dt: int64(x.Post().UnbondingTime) + 1, Fees: g.fees()})
		x.Apply(Op{K: KBlock, Dt: sec})
	case GMultiUnbondSlash:
		// several delegators (and one delegator in two different blocks) undelegate from validator a:
		// several distinct unbonding buckets point at a; then a is slashed
		dns := []string{g.anyDenom("denom")}
		if ds := g.assetDenoms(); len(ds) >= 2 && g.pct("mu-two-denoms", 50) {
			// every delegator undelegates two denominations: the per-validator index then interleaves
			// the delegators (validator | time | denom | delegator)
			dns = []string{ds[0], ds[1]}
		}
		a := g.intn("mu-a", nv)
		k := 2 + g.intn("mu-k", 3)
		blocks := g.pct("mu-blocks-between", 40)
		for d := 0; d < k && d < NumDels; d++ {
			for _, dn := range dns {
				cur := x.Post()
				if _, ok := cur.FindDel(d, a, dn); !ok {
					x.Apply(Op{K: KDelegate, D: d, V: a, Denom: dn, Amt: g.freshAmount("amt")})
				}
			}
			for _, dn := range dns {
				cur := x.Post()
				if pos, ok := cur.FindDel(d, a, dn); ok {
					bal := cur.Reported(pos)
					if bal.Cmp(big.NewInt(3)) > 0 {
						x.Apply(Op{K: KUndelegate, D: d, V: a, Denom: dn, Amt: new(big.Int).Quo(bal, big.NewInt(int64(2+g.intn("mu-div", 3)))).String()})
					}
				}
			}
			if blocks && g.pct("mu-block-between", 50) {
				x.Apply(Op{K: KBlock, Dt: sec, Fees: g.fees()})
			}
		}
		if g.pct("hook", 50) {
			x.Apply(Op{K: KSlashHook, V: a, Frac: g.frac()})
		} else {
			p := new(big.Int).Quo(x.Post().Vals[a].Tokens.BigInt(), big.NewInt(1_000_000)).Int64()
			x.Apply(Op{K: KSlash, V: a, Frac: g.frac(), Power: p, Age: int64(g.intn("age", 2))})
		}
	case GShareFraction:
		// a small position on validator a, a several times larger one on validator b; b is slashed
		// hard (every share on a is now worth several tokens); the holder on a then withdraws or
		// moves all but a fraction of ONE share
		ds := g.assetDenoms()
		if len(ds) == 0 {
			return
		}
		dn := ds[g.intn("sf-denom", len(ds))]
		D := g.del()
		a := g.intn("sf-a", nv)
		b := (a + 1 + g.intn("sf-b", nv-1)) % nv
		small := new(big.Int).Mul(big.NewInt(int64(g.intn("sf-m", 9)+1)), pow10(2+g.intn("sf-k", 6)))
		x.Apply(Op{K: KDelegate, D: D, V: a, Denom: dn, Amt: small.String()})
		if g.pct("sf-second-holder", 40) {
			x.Apply(Op{K: KDelegate, D: (D + 1) % NumDels, V: a, Denom: dn, Amt: new(big.Int).Mul(small, big.NewInt(int64(1+g.intn("sf-m2", 3)))).String()})
		}
		x.Apply(Op{K: KDelegate, D: (D + 2) % NumDels, V: b, Denom: dn, Amt: new(big.Int).Mul(small, big.NewInt(int64(5+g.intn("sf-times", 40)))).String()})
		x.Apply(Op{K: KSlashHook, V: b, Frac: g.pickS("sf-frac", []string{"0.5", "0.8", "0.9", "0.95", "0.99"})})
		cur := x.Post()
		pos, ok := cur.FindDel(D, a, dn)
		if !ok {
			return
		}
		bal := cur.Reported(pos)
		tds, ok := cur.Vals[a].DelShares[dn]
		if !ok || !tds.IsPositive() || bal.Sign() <= 0 {
			return
		}
		tps := new(big.Rat).Quo(cur.ValTokens(a, dn), decRat(tds))
		r := ratFloor(new(big.Rat).Mul(tps, big.NewRat(int64(3+g.intn("sf-frac10", 6)), 10)))
		amt := new(big.Int).Sub(bal, r)
		if amt.Sign() <= 0 {
			amt = bal
		}
		if g.pct("sf-redelegate", 60) {
			x.Apply(Op{K: KRedelegate, D: D, V: a, W: (a + 1 + g.intn("sf-w", nv-1)) % nv, Denom: dn, Amt: amt.String()})
		} else {
			x.Apply(Op{K: KUndelegate, D: D, V: a, Denom: dn, Amt: amt.String()})
		}
	case GRedelIntoUnclaim:
		// delegator D holds the same asset on validators a and b; rewards arrive; ANOTHER position on
		// b settles b's rewards into the index (D's position on b stays unclaimed); then D moves
		// stake from a onto the existing position on b (or tops it up by delegating) and claims
		ds := g.assetDenoms()
		if len(ds) == 0 {
			return
		}
		dn := ds[g.intn("ru-denom", len(ds))]
		D := g.del()
		a := g.intn("ru-a", nv)
		b := (a + 1 + g.intn("ru-b", nv-1)) % nv
		other := (D + 1 + g.intn("ru-other", NumDels-1)) % NumDels
		cur := x.Post()
		if _, ok := cur.FindDel(D, a, dn); !ok {
			x.Apply(Op{K: KDelegate, D: D, V: a, Denom: dn, Amt: g.freshAmount("amt")})
		}
		if _, ok := cur.FindDel(D, b, dn); !ok {
			x.Apply(Op{K: KDelegate, D: D, V: b, Denom: dn, Amt: g.freshAmount("amt")})
		}
		if _, ok := cur.FindDel(other, b, dn); !ok {
			x.Apply(Op{K: KDelegate, D: other, V: b, Denom: dn, Amt: g.freshAmount("amt")})
		}
		x.Apply(Op{K: KBlock, Dt: g.dt(), Fees: g.fees()})
		for i, n := 0, 1+g.intn("ru-blocks", 2); i < n; i++ {
			x.Apply(Op{K: KBlock, Dt: sec, Fees: "1000000" + FeeDenom})
		}
		// the other position settles validator b
		if g.pct("ru-settle-by-claim", 60) {
			x.Apply(Op{K: KClaim, D: other, V: b, Denom: dn})
		} else {
			x.Apply(Op{K: KDelegate, D: other, V: b, Denom: dn, Amt: g.freshAmount("amt")})
		}
		cur = x.Post()
		if pos, ok := cur.FindDel(D, a, dn); ok {
			bal := cur.Reported(pos)
			if bal.Sign() > 0 {
				if g.pct("ru-by-redelegate", 75) {
					x.Apply(Op{K: KRedelegate, D: D, V: a, W: b, Denom: dn, Amt: g.amount("ramt", bal, false)})
				} else {
					x.Apply(Op{K: KDelegate, D: D, V: b, Denom: dn, Amt: g.freshAmount("amt")})
				}
			}
		}
		if g.pct("ru-claim", 60) {
			x.Apply(Op{K: KClaim, D: D, V: b, Denom: dn})
		}
	case GWeightChangeOut:
		// a validator carrying alliance stake (preferably of two assets) earns rewards, leaves the
		// active set (jailed) with rewards still pending in x/distribution, then the weight of one of
		// its assets changes and the positions on it claim
		var cands []int
		for i, v := range s.Vals {
			n := 0
			for _, sh := range v.ValShares {
				if sh.IsPositive() {
					n++
				}
			}
			if n >= 1 && v.Status == 3 && !v.Jailed {
				cands = append(cands, i)
				if n >= 2 {
					cands = append(cands, i, i)
				}
			}
		}
		if len(cands) == 0 || len(s.AssetOrder) == 0 {
			x.Apply(Op{K: KDelegate, D: g.del(), V: g.intn("v", nv), Denom: g.anyDenom("denom"), Amt: g.freshAmount("amt")})
			return
		}
		v := cands[g.intn("wc-v", len(cands))]
		for _, dn := range s.AssetOrder {
			if sh, ok := s.Vals[v].ValShares[dn]; (!ok || !sh.IsPositive()) && g.pct("wc-second-asset", 70) {
				x.Apply(Op{K: KDelegate, D: g.del(), V: v, Denom: dn, Amt: g.freshAmount("amt")})
			}
		}
		x.Apply(Op{K: KBlock, Dt: g.dt(), Fees: g.fees()})
		x.Apply(Op{K: KBlock, Dt: sec, Fees: "1000000" + FeeDenom})
		x.Apply(Op{K: KJail, V: v})
		for i, n := 0, 1+g.intn("wc-blocks", 3); i < n; i++ {
			x.Apply(Op{K: KBlock, Dt: sec, Fees: g.fees()})
		}
		cur := x.Post()
		var staked []string
		for _, dn := range cur.AssetOrder {
			if sh, ok := cur.Vals[v].ValShares[dn]; ok && sh.IsPositive() {
				staked = append(staked, dn)
			}
		}
		if len(staked) == 0 {
			return
		}
		dn := staked[g.intn("wc-denom", len(staked))]
		a := cur.Assets[dn]
		up := g.createOp(dn, "auth")
		up.K, up.Legacy = KUpdate, false
		up.TakeRate = a.TakeRate.String()
		up.RWMin, up.RWMax = "0", "100"
		up.RW = g.pickS("wc-rw", []string{"0.1", "0.5", "2", "9"})
		x.Apply(up)
		if g.pct("wc-block-before-claim", 30) {
			x.Apply(Op{K: KBlock, Dt: sec})
		}
		for _, d := range x.Post().Dels {
			if d.V == v && d.D >= 0 && d.D != 100 {
				x.Apply(Op{K: KClaim, D: d.D, V: d.V, Denom: d.Denom})
			}
		}
	case GExportAtBoundary:
		if x.Twin != nil || len(x.Log) < 14 {
			x.Apply(Op{K: KBlock, Dt: g.dt(), Fees: g.fees()})
			return
		}
		x.Apply(Op{K: KBlock, Dt: g.dt(), Fees: g.fees()})
		x.Apply(Op{K: KExportImp})
	case GQuietNative:
		// a native delegator removes a whole delegation (or delegates) and nothing else
		// happens in that block; a quiet block follows
		var have [][2]int
		for d := 0; d < 2; d++ {
			for v := 0; v < nv; v++ {
				if _, err := x.W.App.StakingKeeper.GetDelegation(x.Ctx, x.natAcc(d), x.W.Vals[v]); err == nil {
					have = append(have, [2]int{d, v})
				}
			}
		}
		x.Apply(Op{K: KBlock, Dt: g.dt(), Fees: g.fees()})
		if g.pct("quiet-status", 35) {
			// a validator's bond status changes (jail / unjail / validator-set size) and nothing else
			var jailed, free []int
			for i, v := range x.Post().Vals {
				if v.Jailed {
					jailed = append(jailed, i)
				} else {
					free = append(free, i)
				}
			}
			switch {
			case len(jailed) > 0 && g.pct("unjail", 60):
				x.Apply(Op{K: KUnjail, V: jailed[g.intn("jv", len(jailed))]})
			case g.pct("maxvals", 30):
				x.Apply(Op{K: KMaxVals, N: 3 + g.intn("maxvals", 4)})
			case len(free) > 1:
				x.Apply(Op{K: KJail, V: free[g.intn("fv", len(free))]})
			}
			x.Apply(Op{K: KBlock, Dt: g.dt()})
			x.Apply(Op{K: KBlock, Dt: g.dt()})
			return
		}
		if len(have) == 0 || g.pct("quiet-delegate", 30) {
			x.Apply(Op{K: KNatDel, D: g.intn("nd", 2), V: g.intn("v", nv), Amt: new(big.Int).Mul(big.NewInt(int64(g.intn("m", 9)+1)), pow10(6+g.intn("k", 4))).String()})
		} else {
			h := have[g.intn("which", len(have))]
			del, _ := x.W.App.StakingKeeper.GetDelegation(x.Ctx, x.natAcc(h[0]), x.W.Vals[h[1]])
			val, err := x.W.App.StakingKeeper.GetValidator(x.Ctx, x.W.Vals[h[1]])
			if err != nil {
				return
			}
			tok := val.TokensFromShares(del.Shares).TruncateInt()
			x.Apply(Op{K: KNatUndel, D: h[0], V: h[1], Amt: tok.String()})
		}
		x.Apply(Op{K: KBlock, Dt: g.dt()})
		x.Apply(Op{K: KBlock, Dt: g.dt()})
	case KCreate:
		signer := "auth"
		if invalid {
			signer = g.pickS("signer", []string{"stranger", "malformed", "empty", "delegator"})
		}
		cop := g.createOp(g.pickS("cdenom", AssetDenoms), signer)
		if g.p.GovFuzz {
			cop = g.fuzzGov(cop)
		}
		x.Apply(cop)
	case KUpdate:
		signer := "auth"
		if invalid {
			signer = g.pickS("signer", []string{"stranger", "malformed", "empty", "delegator"})
		}
		op := g.createOp(g.anyDenom("denom"), signer)
		op.K = KUpdate
		if g.p.GovFuzz {
			op = g.fuzzGov(op)
		}
		x.Apply(op)
	case KDelete:
		signer := "auth"
		if invalid {
			signer = g.pickS("signer", []string{"stranger", "malformed", "empty", "delegator"})
		}
		x.Apply(Op{K: KDelete, Denom: g.anyDenom("denom"), Signer: signer, Legacy: g.pct("legacy", 15)})
	case KParams:
		signer := "auth"
		if invalid {
			signer = g.pickS("signer", []string{"stranger", "malformed", "empty", "delegator"})
		}
		pop := Op{K: KParams, Signer: signer, Delay: g.pickI("delay", g.p.Delays), Interval: g.pickI("interval", g.p.Intervals)}
		if g.p.GovFuzz && g.pct("bad-params", 40) {
			switch g.intn("bad-param-field", 3) {
			case 0:
				pop.Delay = g.pickI("bad-delay", []int64{-1, -9223372036854775808})
			case 1:
				pop.Interval = g.pickI("bad-interval", []int64{-1, 0, -9223372036854775808})
			case 2:
				pop.Signer = g.pickS("signer", []string{"stranger", "malformed", "empty", "delegator", "module"})
			}
		}
		x.Apply(pop)
	case KUnbTime:
		x.Apply(Op{K: KUnbTime, Dt: g.pickI("unbtime", g.p.UnbTimes)})
	case KMaxVals:
		x.Apply(Op{K: KMaxVals, N: 3 + g.intn("maxvals", 4)})
	case KExportImp:
		x.Apply(Op{K: KExportImp})
	case KReimport:
		// only at a block boundary (an export is taken between blocks), and not while the listed
		// finding F-C18a applies (redelegations from different sources merged into one record: the
		// export cannot list the other sources) — excluded by construction, counted
		groups := map[string]map[int]bool{}
		for _, r := range x.L.Redel {
			k := fmt.Sprintf("%d|%d|%s|%d", r.D, r.T, r.Denom, r.Completion.UnixNano())
			if groups[k] == nil {
				groups[k] = map[int]bool{}
			}
			groups[k][r.S] = true
		}
		for _, gr := range groups {
			if len(gr) >= 2 {
				x.Label("excluded:F-C18a-merged-redelegation-record-at-export")
				return
			}
		}
		x.Apply(Op{K: KBlock, Dt: g.dt(), Fees: g.fees()})
		x.Apply(Op{K: KReimport})
	case KValExit:
		// prefer validators that still exist; a short unbonding time lets the removal happen soon
		var exist []int
		for i, v := range s.Vals {
			if v.Shares.IsPositive() {
				exist = append(exist, i)
			}
		}
		if len(exist) <= 2 {
			return // keep at least two validators
		}
		v := exist[g.intn("exit-v", len(exist))]
		x.Apply(Op{K: KValExit, V: v})
		if g.pct("exit-then-blocks", 60) {
			x.Apply(Op{K: KBlock, Dt: g.dt(), Fees: g.fees()})
			x.Apply(Op{K: KBlock, Dt: int64(x.Post().UnbondingTime) + 1, Fees: g.fees()})
		}
	case KValCreate:
		var gone []int
		for i, v := range s.Vals {
			if v.Status == 0 {
				gone = append(gone, i)
			}
		}
		v := g.intn("v", nv)
		if len(gone) > 0 {
			v = gone[g.intn("gone-v", len(gone))]
		}
		x.Apply(Op{K: KValCreate, V: v, Amt: new(big.Int).Mul(big.NewInt(int64(g.intn("m", 9)+1)), pow10(5+g.intn("k", 3))).String(), Frac: g.pickS("commission", []string{"0", "0.1", "1"})})
	default:
		panic("gen: unknown kind " + kind)
	}
}

// drain: every position of asset dn undelegates its full reported balance (worthless positions
// stay behind).
func (g *Gen) drain(dn string) {
	x := g.x
	skip := map[string]bool{}
	for i := 0; i < 14; i++ {
		cur := x.Post()
		var pos []DelSnap
		for _, d := range cur.Dels {
			if d.Denom == dn && d.D >= 0 && d.D != 100 && d.V >= 0 && !skip[d.Key()] {
				pos = append(pos, d)
			}
		}
		if len(pos) == 0 {
			break
		}
		d := pos[0]
		bal := cur.Reported(d)
		if bal.Sign() <= 0 {
			skip[d.Key()] = true // a worthless position (its validator was slashed away) stays behind
			continue
		}
		r := x.Apply(Op{K: KUndelegate, D: d.D, V: d.V, Denom: d.Denom, Amt: bal.String()})
		if !r.OK {
			// try one unit less once (the reported balance is not always withdrawable)
			if bal.Cmp(big.NewInt(1)) > 0 {
				r = x.Apply(Op{K: KUndelegate, D: d.D, V: d.V, Denom: d.Denom, Amt: new(big.Int).Sub(bal, big.NewInt(1)).String()})
			}
			if !r.OK {
				skip[d.Key()] = true
			}
		}
	}
}

// RunCase generates and executes one whole case.
func (g *Gen) RunCase() {
	g.Setup()
	n := g.p.MinSteps + g.intn("nsteps", g.p.MaxSteps-g.p.MinSteps+1)
	for i := 0; i < n && g.x.Halted == ""; i++ {
		g.Step()
	}
	g.x.End()
}
