package harness

// oracle_power.go — C10 (voting power at target) and C11 (virtual staking tokens never leak).

import (
	"math/big"

	"cosmossdk.io/math"
	banktypes "github.com/cosmos/cosmos-sdk/x/bank/types"
	stakingtypes "github.com/cosmos/cosmos-sdk/x/staking/types"
)

// ---------- C10 ----------

type OracleC10 struct{}

func (OracleC10) Name() string           { return "C10" }
func (OracleC10) Before(x *Exec, op *Op) {}
func (OracleC10) End(x *Exec)            {}

func (o OracleC10) After(x *Exec, op *Op, res *Res) {
	if op.K != KBlock || res.AllianceEBErr != "" || res.StakingEBErr != "" {
		return
	}
	pre, mid, s := x.Pre(), x.MidSnap, x.EndSnap
	T := x.LastEndTime
	// what happened in the block (for the evidence)
	for i := range pre.Vals {
		if mid.Vals[i].Status != pre.Vals[i].Status {
			x.Label("c10:status-change-in-block")
		}
	}
	if x.blockHad[KNatDel] || x.blockHad[KNatUndel] || x.blockHad[KNatRedel] || x.blockHad[KSlash] || x.blockHad[KJail] || x.blockHad[KUnjail] {
		x.Label("c10:native-op-slash-or-status-in-block")
	}
	// module stake on validators that are not bonded when the alliance end-blocker runs is not adjusted
	for i := range mid.Vals {
		if mid.Vals[i].Status != stakingtypes.Bonded {
			if !s.Vals[i].ModShares.Equal(mid.Vals[i].ModShares) {
				x.Fail("C10", "unbonded-untouched", "validator %d is %s but the alliance end-blocker changed the module's stake on it (%s -> %s shares)", i, mid.Vals[i].Status, mid.Vals[i].ModShares, s.Vals[i].ModShares)
			}
		}
	}
	// native bonded stake = total bonded - alliance-minted stake on bonded validators
	allianceBonded := new(big.Rat)
	nBonded := 0
	for i := range s.Vals {
		if s.Vals[i].Status == stakingtypes.Bonded {
			allianceBonded.Add(allianceBonded, s.Vals[i].ModTokens())
			nBonded++
		}
	}
	native := new(big.Rat).Sub(intRat(s.TotalBonded), allianceBonded)
	sumW := new(big.Rat)
	for _, dn := range s.AssetOrder {
		sumW.Add(sumW, decRat(s.Assets[dn].RewardWeight))
	}
	for i := range s.Vals {
		if s.Vals[i].Status != stakingtypes.Bonded {
			continue
		}
		target := new(big.Rat)
		sens := new(big.Rat)
		for _, dn := range s.AssetOrder {
			a := s.Assets[dn]
			if T.Before(a.RewardStartTime) {
				continue // warm-up assets carry no voting power
			}
			vs, ok := s.Vals[i].ValShares[dn]
			if !ok || !vs.IsPositive() {
				continue
			}
			bondedShares := decRat(a.TotalValidatorShares)
			for j := range s.Vals {
				if s.Vals[j].Status != stakingtypes.Bonded {
					if sh, ok := s.Vals[j].ValShares[dn]; ok {
						bondedShares.Sub(bondedShares, decRat(sh))
					}
				}
			}
			if bondedShares.Sign() <= 0 {
				continue
			}
			t := new(big.Rat).Mul(decRat(a.RewardWeight), native)
			t.Mul(t, decRat(vs))
			t.Quo(t, bondedShares)
			target.Add(target, t)
			// sensitivity of the target to the native bonded amount: weight x the validator's fraction of
			// the asset's bonded shares (which share-total dust, F-C03, can push above 1)
			sens.Add(sens, new(big.Rat).Quo(new(big.Rat).Mul(decRat(a.RewardWeight), decRat(vs)), bondedShares))
		}
		got := s.Vals[i].ModTokens()
		// tolerance: two base units, plus the module's own truncation of the alliance-bonded
		// amount (up to one unit per bonded validator, scaled by the weights), plus the
		// staking exchange rate (a delegation of x tokens is worth x to within one share unit)
		// tolerance: two base units, plus the module's truncation of the alliance-bonded total
		// (less than one unit, scaled by the weights), plus the staking exchange rate
		tol := big.NewRat(2, 1)
		if sens.Cmp(sumW) > 0 {
			tol.Add(tol, new(big.Rat).Mul(sens, big.NewRat(2, 1)))
		} else {
			tol.Add(tol, new(big.Rat).Mul(sumW, big.NewRat(2, 1)))
		}
		tol.Add(tol, new(big.Rat).Mul(target, big.NewRat(1, 1_000_000_000_000_000)))
		if s.Vals[i].Shares.IsPositive() && !s.Vals[i].Tokens.IsZero() {
			// tokens per share > 1 makes each share unit worth more than one token
			tps := new(big.Rat).Quo(intRat(s.Vals[i].Tokens), decRat(s.Vals[i].Shares))
			if tps.Cmp(big.NewRat(1, 1)) > 0 {
				// staking shares have 18 digits: one share unit (1e-18 share) is worth tps*1e-18 tokens
				tol.Add(tol, new(big.Rat).Mul(tps, big.NewRat(1, 1_000_000_000_000_000)))
			}
		}
		diff := new(big.Rat).Sub(got, target)
		noteErr(x, "c10-stake/tol", diff, tol)
		if ratAbs(diff).Cmp(tol) > 0 {
			x.Fail("C10", "target", "end of block at %s: bonded validator %d carries alliance stake %s, target is %s (native bonded %s; tolerance %s)", T.UTC().Format("15:04:05.000000000"), i, got.FloatString(3), target.FloatString(3), native.FloatString(0), tol.FloatString(3))
		}
		if target.Sign() > 0 {
			x.Label("c10:validator-with-target>0")
		}
	}
}

// ---------- C11 ----------

type OracleC11 struct {
	ups, downs int
}

func (*OracleC11) Name() string           { return "C11" }
func (*OracleC11) Before(x *Exec, op *Op) {}
func (*OracleC11) End(x *Exec)            {}

func netSupply(w *World, s *Snap) *big.Rat {
	net := intRat(s.Supply.AmountOf(w.BondDenom))
	for i := range s.Vals {
		net.Sub(net, s.Vals[i].ModTokens())
	}
	return net
}

func (o *OracleC11) After(x *Exec, op *Op, res *Res) {
	w := x.W
	pre, post := x.Pre(), x.Post()
	bond := w.BondDenom
	dnet := new(big.Rat).Sub(netSupply(w, post), netSupply(w, pre))
	switch op.K {
	case KBlock:
		if res.AllianceEBErr != "" || res.StakingEBErr != "" {
			return
		}
		eb := x.EndSnap
		// the module account holds no staking-denom coins once the block has ended
		if !eb.Module.AmountOf(bond).IsZero() {
			x.Fail("C11", "module-balance", "the module account holds %s%s after end-of-block", eb.Module.AmountOf(bond), bond)
		}
		minted := new(big.Rat)
		if op.Fees != "" && res.OK {
			if fees, err := parseCoins(op.Fees); err == nil {
				minted = intRat(fees.AmountOf(bond))
			}
		}
		// the end-of-block burns staking-denom coins that sit in the module account (rewards
		// without recipient): real tokens, accounted separately
		burnt := intRat(x.MidSnap.Module.AmountOf(bond))
		adj := 0
		for i := range pre.Vals {
			if !post.Vals[i].ModShares.Equal(pre.Vals[i].ModShares) {
				adj++
				if post.Vals[i].ModShares.GT(pre.Vals[i].ModShares) {
					o.ups++
				} else {
					o.downs++
				}
			}
		}
		if o.ups > 0 && o.downs > 0 {
			x.Label("c11:rebalanced-up-and-down")
		}
		err := new(big.Rat).Sub(dnet, minted)
		err.Add(err, burnt)
		// also staking's own completion of native unbondings does not change supply; validators
		// whose tokens changed by a native op in this block are outside this op
		// every adjusted validator contributes a remainder in [0,1): a delegation of x tokens is
		// worth x (to 1e-18 relative), an unbond returns the truncated value of the shares removed
		// and exactly that is burned. So 0 <= err < #adjusted (small slack for exchange-rate rounding).
		tol := big.NewRat(int64(adj), 1)
		slack := new(big.Rat).Mul(netSupply(w, post), big.NewRat(1, 1_000_000_000_000_000))
		slack.Add(slack, big.NewRat(1, 1000))
		if err.Cmp(new(big.Rat).Add(tol, slack)) >= 0 || err.Cmp(new(big.Rat).Neg(slack)) < 0 {
			x.Fail("C11", "net-supply", "block changed the staking-denom supply net of the module's stake by %s (fees minted by the harness %s, stray module coins burnt %s, %d validators adjusted)", dnet.FloatString(3), minted.FloatString(0), burnt.FloatString(0), adj)
		}
	case KSlash:
		// a real slash burns the validator's tokens pro rata; the alliance callback must not mint or burn
		if res.Panic != "" {
			return
		}
		dsupply := new(big.Int).Sub(post.Supply.AmountOf(bond).BigInt(), pre.Supply.AmountOf(bond).BigInt())
		dpools := new(big.Int).Sub(post.Bonded.AmountOf(bond).BigInt(), pre.Bonded.AmountOf(bond).BigInt())
		dpools.Add(dpools, new(big.Int).Sub(post.NotBonded.AmountOf(bond).BigInt(), pre.NotBonded.AmountOf(bond).BigInt()))
		if dsupply.Cmp(dpools) != 0 {
			x.Fail("C11", "slash", "slash changed the staking-denom supply by %s but the staking pools by %s", dsupply, dpools)
		}
		for i := range pre.Vals {
			if !post.Vals[i].ModShares.Equal(pre.Vals[i].ModShares) {
				x.Fail("C11", "slash", "slash changed the module's staking shares on validator %d", i)
			}
		}
		if pre.Vals[op.V].HasModDel && pre.Vals[op.V].Tokens.GT(post.Vals[op.V].Tokens) {
			x.Label("c11:real-slash-with-module-stake")
		}
	case KNatDel, KNatUndel, KNatRedel, KDonate, KUnbTime, KMaxVals, KJail, KUnjail, KValExit, KValCreate:
		// native operations move real tokens between accounts and pools, never the supply
		if !post.Supply.AmountOf(bond).Equal(pre.Supply.AmountOf(bond)) && op.K != KDonate {
			x.Fail("C11", "net-supply", "%s changed the staking-denom supply", op.K)
		}
	default:
		// alliance user operations and governance: no mint, no burn, no change of the module's stake
		if dnet.Sign() != 0 {
			x.Fail("C11", "net-supply", "%s changed the staking-denom supply net of the module's stake by %s", op.K, dnet.FloatString(3))
		}
	}
	// the bank's supply queries report the staking-denom supply net of the alliance-bonded amount
	want := new(big.Rat)
	for i := range post.Vals {
		if post.Vals[i].Status == stakingtypes.Bonded {
			want.Add(want, post.Vals[i].ModTokens())
		}
	}
	wantNet := new(big.Rat).Sub(intRat(post.Supply.AmountOf(bond)), want)
	qctx, _ := x.Ctx.CacheContext()
	r, err := w.App.BankKeeper.SupplyOf(qctx, &banktypes.QuerySupplyOfRequest{Denom: bond})
	if err != nil {
		x.Fail("C11", "supply-query", "SupplyOf failed: %v", err)
	}
	d := new(big.Rat).Sub(intRat(r.Amount.Amount), wantNet)
	// the module truncates each validator's amount and the sum: at most one unit per bonded validator + 1
	if d.Sign() < 0 || d.Cmp(big.NewRat(int64(len(post.Vals)+1), 1)) > 0 {
		x.Fail("C11", "supply-query", "SupplyOf(%s) = %s, supply %s minus alliance-bonded %s = %s", bond, r.Amount.Amount, post.Supply.AmountOf(bond), want.FloatString(3), wantNet.FloatString(3))
	}
	r2, err := w.App.BankKeeper.TotalSupply(qctx, &banktypes.QueryTotalSupplyRequest{})
	if err != nil {
		x.Fail("C11", "supply-query", "TotalSupply failed: %v", err)
	}
	if !r2.Supply.AmountOf(bond).Equal(r.Amount.Amount) {
		x.Fail("C11", "supply-query", "TotalSupply reports %s%s, SupplyOf reports %s", r2.Supply.AmountOf(bond), bond, r.Amount.Amount)
	}
	for _, c := range post.Supply {
		if c.Denom != bond && !r2.Supply.AmountOf(c.Denom).Equal(c.Amount) {
			x.Fail("C11", "supply-query", "TotalSupply reports %s of %s, bank supply is %s", r2.Supply.AmountOf(c.Denom), c.Denom, c.Amount)
		}
	}
	_ = math.ZeroInt
}
