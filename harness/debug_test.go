package harness

import (
	"encoding/json"
	"fmt"
	"os"
	"testing"
)

func TestDebug(t *testing.T) {
	w := world(t)
	x := NewExec(w, Labeler{})
	b, _ := os.ReadFile(os.Getenv("DBG"))
	var rf ReplayFile
	json.Unmarshal(b, &rf)
	for i, op := range rf.Ops {
		r := x.Apply(op)
		s := x.Post()
		fmt.Println(i, op.K, op.Amt, r.Class(), r.Err)
		for _, dn := range s.AssetOrder {
			a := s.Assets[dn]
			fmt.Println("   asset TT", a.TotalTokens, "TVS", a.TotalValidatorShares)
		}
		for _, v := range s.Vals {
			if len(v.ValShares) > 0 || len(v.DelShares) > 0 {
				fmt.Println("    val", v.Idx, "valshares", v.ValShares, "delshares", v.DelShares)
			}
		}
		for _, d := range s.Dels {
			fmt.Println("    del", d.Key(), d.Shares, "V=", s.PosValue(d).FloatString(3))
		}
	}
}
