package harness

// C18 — genesis export/import yields an observationally equivalent module. Differential
// twins: at a block boundary the history forks; on the twin branch the alliance store is
// wiped and re-initialised from the export. (1) the twin's export equals the original's;
// (2) the continuation runs in lock-step on both and every observable is compared after
// every step; (3) at the end a systematic probe (slash every validator, mature everything)
// is run on forks of both.

import (
	"bytes"
	"fmt"
	"sort"
	"strings"

	sdk "github.com/cosmos/cosmos-sdk/types"
)

type OracleC18 struct{}

func (OracleC18) Name() string           { return "C18" }
func (OracleC18) Before(x *Exec, op *Op) {}

// observables renders what users, other modules and queries can see, section by section.
// Raw secondary structures (time queue, rebalance flag) are not included: raw store
// equality is not required, only behaviour.
func observables(s *Snap) map[string]string {
	m := map[string]string{}
	var b strings.Builder
	for _, dn := range s.AssetOrder {
		a := s.Assets[dn]
		fmt.Fprintf(&b, "%s tt=%s tvs=%s w=%s [%s,%s] take=%s rate=%s int=%d last=%d start=%d init=%v\n", dn, a.TotalTokens, a.TotalValidatorShares, a.RewardWeight, a.RewardWeightRange.Min, a.RewardWeightRange.Max, a.TakeRate, a.RewardChangeRate, a.RewardChangeInterval, a.LastRewardChangeTime.UnixNano(), a.RewardStartTime.UnixNano(), a.IsInitialized)
	}
	m["assets"] = b.String()
	b.Reset()
	for _, v := range s.Vals {
		fmt.Fprintf(&b, "%d del=%v val=%v hist=%v tokens=%s shares=%s status=%s jailed=%v mod=%s\n", v.Idx, sortedDec(v.DelShares), sortedDec(v.ValShares), v.History, v.Tokens, v.Shares, v.Status, v.Jailed, v.ModShares)
	}
	m["validators"] = b.String()
	b.Reset()
	for _, d := range s.Dels {
		fmt.Fprintf(&b, "%s shares=%s hist=%v h=%d\n", d.Key(), d.Shares, d.History, d.LastH)
	}
	m["delegations"] = b.String()
	m["unbondings"] = strings.Join(s.UnbMultiset(), "\n")
	var r []string
	for _, e := range s.Redels {
		r = append(r, fmt.Sprintf("%d %d->%d %s %s @%d", e.D, e.S, e.T, e.Denom, e.Amt, e.Completion.UnixNano()))
	}
	sort.Strings(r)
	m["redelegations"] = strings.Join(r, "\n")
	m["params"] = fmt.Sprintf("%d %d %d", s.Params.RewardDelayTime, s.Params.TakeRateClaimInterval, s.Params.LastTakeRateClaimTime.UnixNano())
	m["balances"] = fmt.Sprintf("module=%s rewards=%s fee=%s bonded=%s notbonded=%s distr=%s users=%v supply=%s", s.Module, s.Rewards, s.FeeColl, s.Bonded, s.NotBonded, s.Distr, s.Users, s.Supply)
	m["snapshots"] = fmt.Sprint(s.NSnapshots)
	return m
}

func sortedDec[V fmt.Stringer](m map[string]V) string {
	var out []string
	for _, k := range sortedKeys(m) {
		out = append(out, k+"="+m[k].String())
	}
	return strings.Join(out, ",")
}

func (o OracleC18) compare(x *Exec, when string) {
	a, b := TakeSnap(x.W, x.Ctx), TakeSnap(x.W, x.Twin.Ctx)
	oa, ob := observables(a), observables(b)
	for _, k := range sortedKeys(oa) {
		if oa[k] != ob[k] {
			x.Fail("C18", "equivalence", "%s: %s differ between the original and the re-imported module\n original: %s\n imported: %s", when, k, clip(oa[k]), clip(ob[k]))
		}
	}
}

func clip(s string) string {
	if len(s) > 700 {
		return s[:700] + "…"
	}
	return s
}

func (o OracleC18) After(x *Exec, op *Op, res *Res) {
	if op.K == KExportImp {
		if !res.OK {
			x.Fail("C18", "import", "export/import failed: %s%s", res.Err, res.Panic)
		}
		pre := x.Pre()
		shared := false
		for _, b := range pre.Unb {
			if len(b.Entries) >= 2 {
				shared = true
			}
		}
		if shared || len(pre.Redels) >= 2 || pre.NSnapshots > 0 {
			x.Label("c18:rich-export")
		}
		// Listed finding F-C18a (root cause F-C07b): redelegations from different sources
		// that share (delegator, destination, denom, completion) are stored as one record
		// with the first source; the export cannot list the other sources, so their
		// per-source index is not re-created and a later slash of such a source differs.
		groups := map[string]map[int]bool{}
		for _, r := range x.L.Redel {
			k := fmt.Sprintf("%d|%d|%s|%d", r.D, r.T, r.Denom, r.Completion.UnixNano())
			if groups[k] == nil {
				groups[k] = map[int]bool{}
			}
			groups[k][r.S] = true
		}
		for _, g := range groups {
			if len(g) >= 2 {
				x.KnownFinding("F-C18a")
				x.Label("excluded:c18-merged-redelegation-record-at-export")
				x.Twin = nil // this history is no longer judged
				return
			}
		}
		if !bytes.Equal(x.ExportA, x.ExportB) {
			x.Fail("C18", "re-export", "the export of the re-imported module differs from the export it was imported from:\n first : %s\n second: %s", clip(string(x.ExportA)), clip(string(x.ExportB)))
		}
		o.compare(x, "right after import")
		return
	}
	if x.Twin == nil {
		return
	}
	tr := x.TwinRes
	if tr == nil {
		return
	}
	if res.Class() != tr.Class() || res.Err != tr.Err || res.Panic != tr.Panic {
		x.Fail("C18", "results", "%s: original -> %s %s%s, re-imported -> %s %s%s", op, res.Class(), res.Err, res.Panic, tr.Class(), tr.Err, tr.Panic)
	}
	if (op.K == KSlash || op.K == KSlashHook) && x.L.LastSlashHookErr != x.Twin.L.LastSlashHookErr {
		x.Fail("C18", "results", "slash callback error differs: original %q, re-imported %q", x.L.LastSlashHookErr, x.Twin.L.LastSlashHookErr)
	}
	if op.K == KSlash || op.K == KSlashHook || op.K == KBlock {
		x.Label("c18:continuation-with-slash-or-block")
	}
	o.compare(x, "after "+op.K)
}

func (o OracleC18) AfterHalt(x *Exec, op *Op, res *Res) {
	if x.Twin != nil && x.TwinRes != nil && (x.Twin.Halted == "") != (x.Halted == "") {
		x.Fail("C18", "results", "%s halts the chain on one side only: original %q, re-imported %q", op.K, x.Halted, x.Twin.Halted)
	}
}

// End: systematic probe continuation on forks of both sides.
func (o OracleC18) End(x *Exec) {
	if x.Twin == nil || x.Halted != "" || x.Twin.Halted != "" {
		return
	}
	w := x.W
	probe := func(ctx sdk.Context) *Snap {
		c, _ := ctx.CacheContext()
		p := &Exec{W: w, Ctx: c, Labels: map[string]int{}, Known: map[string]int{}, ErrOverTol: map[string]float64{}}
		p.Ctx = p.Ctx.WithLogger(&capLogger{x: p})
		p.L.init()
		for v := range w.Vals {
			p.applyQuiet(Op{K: KSlashHook, V: v, Frac: "0.25"})
			if p.Halted != "" {
				break
			}
		}
		if p.Halted == "" {
			p.applyQuiet(Op{K: KBlock, Dt: 22 * day})
		}
		if p.Halted == "" {
			p.applyQuiet(Op{K: KBlock, Dt: sec})
		}
		s := TakeSnap(w, p.Ctx)
		s.AssetOrder = append(s.AssetOrder, "halted="+p.Halted)
		return s
	}
	a, b := probe(x.Ctx), probe(x.Twin.Ctx)
	oa, ob := observables(a), observables(b)
	for _, k := range sortedKeys(oa) {
		if oa[k] != ob[k] {
			x.Fail("C18", "equivalence", "probe continuation (slash every validator by 25%%, then two blocks past every completion time): %s differ\n original: %s\n imported: %s", k, clip(oa[k]), clip(ob[k]))
		}
	}
	if a.AssetOrder[len(a.AssetOrder)-1] != b.AssetOrder[len(b.AssetOrder)-1] {
		x.Fail("C18", "equivalence", "probe continuation halts differently: %s vs %s", a.AssetOrder[len(a.AssetOrder)-1], b.AssetOrder[len(b.AssetOrder)-1])
	}
}
