package harness

// enumerate_test.go — bounded-exhaustive leg (thorough tier of C01, C02, C07, C15, C20):
// every packing of 1..3 undelegations / redelegations of one delegator into two
// consecutive blocks (same or different validators and denoms), crossed with a slash of
// either source validator at every interesting instant (same block, between, exactly at
// the completion time, just after) and block boundaries at completion-1ns / = / +1ns.
// Same executor, same oracles as the random campaigns; the space is finite and is
// enumerated completely.

import (
	"encoding/json"
	"fmt"
	"os"
	"testing"
)

type enumEntry struct {
	kind  string // undelegate | redelegate
	v, w  int
	denom string
}

func enumHistories() [][]Op {
	const U = 1000 * sec
	bbb := AssetDenoms[1]
	entries := []enumEntry{
		{KUndelegate, 0, 0, "aaa"},
		{KUndelegate, 1, 0, "aaa"},
		{KUndelegate, 0, 0, bbb},
		{KRedelegate, 0, 2, "aaa"},
		{KRedelegate, 1, 2, "aaa"},
	}
	amounts := []string{"100000", "250001", "1"}
	setup := []Op{
		{K: KUnbTime, Dt: U},
		{K: KParams, Signer: "auth", Delay: 0, Interval: 300 * sec},
		{K: KCreate, Denom: "aaa", Signer: "auth", RW: "1", RWMin: "0", RWMax: "10", TakeRate: "0", ChRate: "1"},
		{K: KCreate, Denom: bbb, Signer: "auth", RW: "0.5", RWMin: "0", RWMax: "10", TakeRate: "0", ChRate: "1"},
		{K: KBlock, Dt: sec},
		{K: KDelegate, D: 0, V: 0, Denom: "aaa", Amt: "1000000"},
		{K: KDelegate, D: 0, V: 1, Denom: "aaa", Amt: "1000000"},
		{K: KDelegate, D: 0, V: 0, Denom: bbb, Amt: "1000000"},
		{K: KDelegate, D: 1, V: 2, Denom: "aaa", Amt: "500000"},
		{K: KBlock, Dt: sec, Fees: "1000000" + FeeDenom},
	}
	mk := func(e enumEntry, i int) Op {
		return Op{K: e.kind, D: 0, V: e.v, W: e.w, Denom: e.denom, Amt: amounts[i%len(amounts)]}
	}
	// multisets (with order) of 1..3 entries
	var seqs [][]int
	n := len(entries)
	for a := 0; a < n; a++ {
		seqs = append(seqs, []int{a})
		for b := a; b < n; b++ {
			seqs = append(seqs, []int{a, b})
			for c := b; c < n; c++ {
				seqs = append(seqs, []int{a, b, c})
			}
		}
	}
	const gap = 10 * sec
	type slashOpt struct {
		v    int    // -1 none
		when string // "b0" | "between" | "at" | "after"
	}
	slashes := []slashOpt{{-1, ""}}
	for _, v := range []int{0, 1} {
		for _, w := range []string{"b0", "between", "at", "after"} {
			slashes = append(slashes, slashOpt{v, w})
		}
	}
	var out [][]Op
	for _, sq := range seqs {
		for mask := 0; mask < 1<<len(sq); mask++ {
			for _, sl := range slashes {
				h := append([]Op{}, setup...)
				// block B0
				for i, ei := range sq {
					if mask&(1<<i) == 0 {
						h = append(h, mk(entries[ei], i))
					}
				}
				if sl.when == "b0" {
					h = append(h, Op{K: KSlashHook, V: sl.v, Frac: "0.333333333333333333"})
				}
				h = append(h, Op{K: KBlock, Dt: gap})
				// block B1
				for i, ei := range sq {
					if mask&(1<<i) != 0 {
						h = append(h, mk(entries[ei], i))
					}
				}
				if sl.when == "between" {
					h = append(h, Op{K: KSlashHook, V: sl.v, Frac: "0.5"})
				}
				// now at t0+gap; completion of B0 entries at t0+U, of B1 entries at t0+gap+U
				h = append(h, Op{K: KBlock, Dt: U - gap - 1}) // -> t0+U-1ns
				h = append(h, Op{K: KBlock, Dt: 1})           // -> t0+U  (== completion of B0 entries)
				if sl.when == "at" {
					h = append(h, Op{K: KSlashHook, V: sl.v, Frac: "0.5"})
				}
				h = append(h, Op{K: KBlock, Dt: 1}) // -> t0+U+1ns
				if sl.when == "after" {
					h = append(h, Op{K: KSlashHook, V: sl.v, Frac: "0.5"})
				}
				h = append(h, Op{K: KBlock, Dt: gap - 1}) // -> t0+gap+U (== completion of B1 entries)
				h = append(h, Op{K: KBlock, Dt: 1})       // -> +1ns
				h = append(h, Op{K: KBlock, Dt: day})
				out = append(out, h)
			}
		}
	}
	return out
}

// enumSchedules: the bounded-exhaustive leg of C09 and C14 — every block schedule of three
// steps drawn from {I-1ns, I, I+1ns, 2I, 2I+1ns, 5I+1ns} (I = claim interval = decay interval)
// for every combination of take rate, decay rate and staked total, with a deposit between
// the second and third block.
func enumSchedules() [][]Op {
	I := 5 * sec
	rates := []string{"0.000000000000000001", "0.001", "0.5", "0.999999"}
	decays := []string{"1", "0.5", "0.99"}
	totals := []string{"1", "2", "3", "1000", "1000001", "1000000000000000007"}
	steps := []int64{I - 1, I, I + 1, 2 * I, 2*I + 1, 5*I + 1}
	var out [][]Op
	for _, r := range rates {
		for _, d := range decays {
			for _, tot := range totals {
				for _, a := range steps {
					for _, b := range steps {
						for _, c := range steps {
							h := []Op{
								{K: KUnbTime, Dt: sec},
								{K: KParams, Signer: "auth", Delay: 0, Interval: I},
								{K: KCreate, Denom: "aaa", Signer: "auth", RW: "1", RWMin: "0.1", RWMax: "10", TakeRate: r, ChRate: d, ChInt: I},
								{K: KBlock, Dt: sec},
								{K: KDelegate, D: 0, V: 0, Denom: "aaa", Amt: tot},
								{K: KBlock, Dt: a},
								{K: KBlock, Dt: b},
								{K: KDelegate, D: 1, V: 1, Denom: "aaa", Amt: "1000"},
								{K: KBlock, Dt: c},
								{K: KBlock, Dt: 1},
							}
							out = append(out, h)
						}
					}
				}
			}
		}
	}
	return out
}

func TestEnumerate(t *testing.T) {
	prop := os.Getenv("VERIF_PROP")
	if prop == "" || os.Getenv("VERIF_ENUM") == "" {
		t.Skip("VERIF_PROP / VERIF_ENUM not set")
	}
	spec := Specs[prop]
	if spec == nil {
		t.Fatalf("unknown property %s", prop)
	}
	w := world(t)
	hs := enumHistories()
	if prop == "C09" || prop == "C14" {
		hs = enumSchedules()
	}
	shard, nshards := 0, 1
	fmt.Sscan(os.Getenv("VERIF_SHARD"), &shard)
	fmt.Sscan(os.Getenv("VERIF_NSHARDS"), &nshards)
	if nshards < 1 {
		nshards = 1
	}
	st := &ShardStats{Property: prop, Rule: spec.Rule, Tier: "thorough", Labels: map[string]int{}, LabelHits: map[string]int{}, Known: map[string]int{}, MaxErrOverTol: map[string]float64{}, Extra: map[string]int{}, Errs: map[string]int{}}
	st.Extra["enumerated_space"] = len(hs)
	seen := map[string]bool{}
	for i, h := range hs {
		if i%nshards != shard {
			continue
		}
		x, v := replayOps(w, spec, h)
		st.Cases++
		st.Steps += len(x.Log)
		for l, n := range x.Labels {
			st.Labels[l]++
			st.LabelHits[l] += n
		}
		for k, n := range x.Known {
			st.Known[k] += n
		}
		if v != nil {
			ops, mv := minimizeOps(w, spec, h, v)
			st.Violation = mv
			rf := ReplayFile{Property: mv.Property, Violation: mv, Ops: ops, Note: "found by the bounded-exhaustive enumeration"}
			b, _ := json.MarshalIndent(rf, "", " ")
			dir := envOr("VERIF_REPLAY_DIR", "/verif/replays")
			_ = os.MkdirAll(dir, 0o755)
			path := fmt.Sprintf("%s/%s-%s.json", dir, mv.Property, hashOps(ops))
			if err := os.WriteFile(path, b, 0o644); err == nil {
				st.ReplayFile = path
			}
			break
		}
		if spec.NonTrivial(x) {
			hh := hashOps(x.Log)
			if !seen[hh] {
				seen[hh] = true
				st.NonTrivial = append(st.NonTrivial, hh)
				if len(st.Samples) < 1 {
					st.Samples = append(st.Samples, x.Log)
				}
			}
		}
	}
	st.Requested = st.Cases
	if out := os.Getenv("VERIF_OUT"); out != "" {
		b, _ := json.Marshal(st)
		if err := os.WriteFile(out, b, 0o644); err != nil {
			t.Fatalf("cannot write stats: %v", err)
		}
	}
}
