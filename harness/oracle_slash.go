package harness

// oracle_slash.go — C06 (bonded slash: proportional, targeted, conserving) and
// C08 (slash callback is total).

import (
	"fmt"
	"math/big"
	"strings"
)

// ---------- C06 ----------

type OracleC06 struct{}

func (OracleC06) Name() string           { return "C06" }
func (OracleC06) Before(x *Exec, op *Op) {}
func (OracleC06) End(x *Exec)            {}

func (o OracleC06) After(x *Exec, op *Op, res *Res) {
	if op.K != KSlash && op.K != KSlashHook {
		return
	}
	pre, post := x.Pre(), x.Post()
	f := x.L.LastSlashFrac
	if f == nil {
		// nothing burned, callback not invoked: no alliance position may move
		for _, d := range pre.Dels {
			nd, ok := post.FindDel(d.D, d.V, d.Denom)
			if !ok || pre.PosValue(d).Cmp(post.PosValue(nd)) != 0 {
				x.Fail("C06", "no-slash-no-change", "a slash that burned nothing changed position %s", d.Key())
			}
		}
		return
	}
	if x.L.LastSlashHookErr != "" {
		return // aborted callback: C08
	}
	one := big.NewRat(1, 1)
	// destinations of pending redelegations out of the slashed validator (C07 handles their share loss)
	dest := map[posKey]bool{}
	destVal := map[string]bool{}
	for _, r := range x.L.Redel {
		if r.S == op.V && !r.Completion.Before(pre.Time) {
			dest[posKey{r.D, r.T, r.Denom}] = true
			destVal[fmt.Sprintf("%d|%s", r.T, r.Denom)] = true
		}
	}
	for _, denom := range pre.AssetOrder {
		a := pre.Assets[denom]
		pa, ok := post.Assets[denom]
		if !ok {
			x.Fail("C06", "conservation", "slash deleted asset %s", denom)
		}
		if !pa.TotalTokens.Equal(a.TotalTokens) {
			x.Fail("C06", "conservation", "slash changed the staked total of %s from %s to %s", denom, a.TotalTokens, pa.TotalTokens)
		}
		if x.PrecisionCollapsed(denom) || degenerateAsset(pre, denom) || orphanedValidator(pre, denom) || a.TotalValidatorShares.IsNegative() {
			// listed finding F-C04a: no meaningful share prices in this asset any more (value was
			// concentrated by a near-total slash, is ownerless, or the share total is dust-negative)
			x.Label("c06:ownerless-value-state")
			continue
		}
		sv, has := pre.Vals[op.V].ValShares[denom]
		if !has || !sv.IsPositive() || a.TotalValidatorShares.IsZero() || a.TotalTokens.IsZero() {
			// the slashed validator holds nothing of this asset: every position keeps its value exactly
			for _, d := range pre.DelsOfAsset(denom) {
				nd, ok := post.FindDel(d.D, d.V, d.Denom)
				if dest[posKey{d.D, d.V, d.Denom}] {
					continue
				}
				if destVal[fmt.Sprintf("%d|%s", d.V, denom)] {
					// value removed from a destination position is redistributed to its neighbours: they may only gain
					if !ok || post.PosValue(nd).Cmp(pre.PosValue(d)) < 0 {
						x.Fail("C06", "targeted", "slash of validator %d lowered position %s on a redelegation-destination validator", op.V, d.Key())
					}
					continue
				}
				if !ok || pre.PosValue(d).Cmp(post.PosValue(nd)) != 0 {
					x.Fail("C06", "targeted", "slash of validator %d changed position %s although the validator holds no %s", op.V, d.Key(), denom)
				}
			}
			continue
		}
		S := decRat(a.TotalValidatorShares)
		den := new(big.Rat).Sub(S, new(big.Rat).Mul(f, decRat(sv)))
		if den.Sign() <= 0 {
			// f = 1 on the only validator holding shares: no admissible redistribution factor
			x.Label("excluded:c06-sole-validator-fully-slashed")
			continue
		}
		if x.PrecisionCollapsed(denom) || degenerateAsset(pre, denom) || orphanedValidator(pre, denom) {
			x.Label("c06:ownerless-value-state")
			continue
		}
		g := new(big.Rat).Quo(S, den)
		keep := new(big.Rat).Sub(one, f)
		tol := assetTol(pre, post, denom)
		holders := 0
		uneven := false
		var first *big.Rat
		for i := range pre.Vals {
			if s, ok := pre.Vals[i].ValShares[denom]; ok && s.IsPositive() {
				holders++
				if first == nil {
					first = decRat(s)
				} else if first.Cmp(decRat(s)) != 0 {
					uneven = true
				}
			}
		}
		if holders >= 2 && uneven {
			x.Label("c06:uneven-multi-validator")
		}
		// validator-level values
		for i := range pre.Vals {
			want := new(big.Rat).Mul(pre.ValTokens(i, denom), g)
			if i == op.V {
				want.Mul(want, keep)
			}
			got := post.ValTokens(i, denom)
			err := new(big.Rat).Sub(got, want)
			noteErr(x, "c06-validator-value/tol", err, tol)
			if ratAbs(err).Cmp(tol) > 0 {
				x.Fail("C06", "proportional", "slash of validator %d by %s: validator %d's %s value is %s, expected %s (g=%s, tolerance %s)", op.V, f.FloatString(18), i, denom, got.FloatString(3), want.FloatString(3), g.FloatString(18), tol.FloatString(3))
			}
		}
		// position-level values
		for _, d := range pre.DelsOfAsset(denom) {
			if d.V < 0 {
				continue
			}
			want := new(big.Rat).Mul(pre.PosValue(d), g)
			if d.V == op.V {
				want.Mul(want, keep)
			}
			nd, ok := post.FindDel(d.D, d.V, d.Denom)
			got := new(big.Rat)
			if ok {
				got = post.PosValue(nd)
			}
			if dest[posKey{d.D, d.V, d.Denom}] {
				continue // loses f * redelegated amount on top (C07)
			}
			err := new(big.Rat).Sub(got, want)
			if destVal[fmt.Sprintf("%d|%s", d.V, denom)] {
				// shares removed from a destination position are redistributed to the other
				// positions of that validator: they may only gain
				if err.Sign() < 0 && ratAbs(err).Cmp(tol) > 0 {
					x.Fail("C06", "targeted", "slash of validator %d: position %s on a redelegation-destination validator fell to %s, expected at least %s", op.V, d.Key(), got.FloatString(3), want.FloatString(3))
				}
				continue
			}
			noteErr(x, "c06-position-value/tol", err, tol)
			if ratAbs(err).Cmp(tol) > 0 {
				who := "elsewhere (factor g)"
				if d.V == op.V {
					who = "on the slashed validator (factor (1-f)*g)"
				}
				x.Fail("C06", "proportional", "slash of validator %d by %s: position %s %s is worth %s, expected %s (was %s, g=%s, tolerance %s)", op.V, f.FloatString(18), d.Key(), who, got.FloatString(3), want.FloatString(3), pre.PosValue(d).FloatString(3), g.FloatString(18), tol.FloatString(3))
			}
		}
	}
}

// ---------- C08 ----------

type OracleC08 struct{}

func (OracleC08) Name() string           { return "C08" }
func (OracleC08) Before(x *Exec, op *Op) {}
func (OracleC08) End(x *Exec)            {}

func (o OracleC08) AfterHalt(x *Exec, op *Op, res *Res) {
	if (op.K == KSlash || op.K == KSlashHook) && res.Panic != "" {
		o.failure(x, op, x.Pre(), "panic: "+res.Panic)
	}
}

func (o OracleC08) After(x *Exec, op *Op, res *Res) {
	if op.K != KSlash && op.K != KSlashHook {
		return
	}
	pre, post := x.Pre(), x.Post()
	if op.K == KSlashHook && res.Panic != "" {
		o.failure(x, op, pre, "panic: "+res.Panic)
		return
	}
	if op.K == KSlash && res.Panic != "" {
		o.failure(x, op, pre, "panic inside staking slash: "+res.Panic)
		return
	}
	if x.L.LastSlashFrac == nil {
		return // callback not invoked
	}
	// witnesses for the evidence
	for _, r := range x.L.Redel {
		if r.S != op.V || r.Completion.Before(pre.Time) {
			continue
		}
		d, ok := pre.FindDel(r.D, r.T, r.Denom)
		if !ok {
			x.Label("c08:destination-position-gone")
		} else if new(big.Rat).SetInt(r.Amt).Cmp(pre.PosValue(d)) > 0 {
			x.Label("c08:destination-position-shrunk")
		}
		if _, ok := pre.Assets[r.Denom]; !ok {
			x.Label("c08:asset-deleted-while-redelegation-pending")
		}
	}
	if x.L.LastSlashHookErr != "" {
		o.failure(x, op, pre, x.L.LastSlashHookErr)
		return
	}
	// completed: the rebalance must be scheduled for the end of the block
	if !post.Flag {
		x.Fail("C08", "reschedule", "slash callback for validator %d returned without scheduling a rebalance", op.V)
	}
}

// failure classifies a failed callback.
func (OracleC08) failure(x *Exec, op *Op, pre *Snap, msg string) {
	// Listed finding F-C08b: the claim executed inside the callback cannot be paid by
	// the rewards pool (root cause: C12's findings).
	if strings.Contains(msg, "insufficient funds") || strings.Contains(msg, "is smaller than") {
		x.KnownFinding("F-C08b")
		x.Label("c08:pool-shortfall-in-callback")
		return
	}
	// Listed finding F-C05a: zero-valued validator, division by zero in share conversion
	if strings.Contains(msg, "division by zero") {
		for _, r := range x.L.Redel {
			if r.S == op.V && !r.Completion.Before(pre.Time) && moduleSeesZeroValue(pre, r.T, r.Denom) {
				x.KnownFinding("F-C05a")
				return
			}
			if r.S == op.V && !r.Completion.Before(pre.Time) && (x.PrecisionCollapsed(r.Denom) || degenerateAsset(pre, r.Denom) || orphanedValidator(pre, r.Denom) || pre.Assets[r.Denom].TotalValidatorShares.IsNegative()) {
				// listed finding F-C04a: the asset has a staked total but no (or a dust-negative) share
				// total — validator values computed from it are zero or meaningless
				x.KnownFinding("F-C04a")
				x.Label("c08:collapsed-asset-in-callback")
				return
			}
		}
	}
	// Listed finding F-C04a (consequence): once an asset's accounting has collapsed (staked
	// total driven negative by an over-withdrawal) share conversions yield negative amounts
	if strings.Contains(msg, "negative") {
		for _, dn := range pre.AssetOrder {
			if x.PrecisionCollapsed(dn) && (!pre.Assets[dn].TotalTokens.IsPositive() || pre.Assets[dn].TotalValidatorShares.IsNegative()) {
				x.KnownFinding("F-C04a")
				return
			}
		}
	}
	// Listed finding F-C04a (consequence): an asset whose recorded total was driven negative by
	// over-withdrawals is never reset (total != 0) yet can be deleted (the guard asks for > 0):
	// validators keep shares of a denomination that is no asset any more and slashing them fails
	if strings.Contains(msg, "not whitelisted") {
		for _, dn := range sortedKeys(pre.Vals[op.V].ValShares) {
			if _, ok := pre.Assets[dn]; !ok && x.PrecisionCollapsed(dn) {
				x.KnownFinding("F-C04a")
				x.Label("c08:shares-of-a-deleted-overdrawn-asset")
				return
			}
		}
	}
	fs := op.Frac
	if x.L.LastSlashFrac != nil {
		fs = x.L.LastSlashFrac.FloatString(18)
	}
	x.Fail("C08", "total", "slash callback for validator %d with fraction %s failed: %s", op.V, fs, msg)
}

// Relabel runs another property's oracle as a sub-check of this property: C08 demands
// that after the callback the C06/C07 effects are complete.
type Relabel struct {
	Inner Oracle
	Prop  string
	Pref  string
}

func (r Relabel) Name() string { return r.Prop + "/" + r.Inner.Name() }
func (r Relabel) guard(f func()) {
	defer func() {
		if p := recover(); p != nil {
			if vp, ok := p.(violationPanic); ok {
				vp.v.Oracle = r.Pref + vp.v.Property + "/" + vp.v.Oracle
				vp.v.Property = r.Prop
				panic(vp)
			}
			panic(p)
		}
	}()
	f()
}
func (r Relabel) Before(x *Exec, op *Op) { r.guard(func() { r.Inner.Before(x, op) }) }
func (r Relabel) After(x *Exec, op *Op, res *Res) {
	r.guard(func() { r.Inner.After(x, op, res) })
}
func (r Relabel) End(x *Exec) { r.guard(func() { r.Inner.End(x) }) }
func (r Relabel) EndOfBlock(x *Exec) {
	if e, ok := r.Inner.(interface{ EndOfBlock(x *Exec) }); ok {
		r.guard(func() { e.EndOfBlock(x) })
	}
}
func (r Relabel) AfterHalt(x *Exec, op *Op, res *Res) {
	if h, ok := r.Inner.(interface {
		AfterHalt(x *Exec, op *Op, res *Res)
	}); ok {
		r.guard(func() { h.AfterHalt(x, op, res) })
	}
}
