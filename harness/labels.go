package harness

// labels.go — the generic classifier: labels every case with what actually happened,
// from observations (snapshots and results), for the evidence histograms and the
// non-triviality rules.

import (
	"fmt"
	"math/big"
	"strings"
)

type Labeler struct{}

func (Labeler) Name() string           { return "labels" }
func (Labeler) Before(x *Exec, op *Op) {}
func (Labeler) End(x *Exec)            {}
func (Labeler) AfterHalt(x *Exec, op *Op, res *Res) {
	x.Label(res.Class() + ":" + op.K)
	x.Label("halted")
}

func (Labeler) After(x *Exec, op *Op, res *Res) {
	x.Label(res.Class() + ":" + op.K)
	pre, post := x.Pre(), x.Post()
	for _, dn := range post.AssetOrder {
		amp := amplification(post, dn)
		if x.AmpSeen == nil {
			x.AmpSeen = map[string]*big.Rat{}
		}
		if cur := x.AmpSeen[dn]; cur == nil || amp.Cmp(cur) > 0 {
			million := big.NewRat(1_000_000, 1)
			if amp.Cmp(million) >= 0 && (cur == nil || cur.Cmp(million) < 0) {
				x.Label("precision-collapsed:amplification>=1e6")
			}
			x.AmpSeen[dn] = amp
		}
		if degenerateAsset(post, dn) {
			if x.OwnerlessSeen == nil {
				x.OwnerlessSeen = map[string]bool{}
			}
			if !x.OwnerlessSeen[dn] {
				x.OwnerlessSeen[dn] = true
				x.Label("ownerless-value-state-entered")
			}
		}
	}
	// over-withdrawal budget: one unit (plus the fixed-point tolerance) per successful undelegation
	// since the asset's shares were last reset
	if x.UndelCount == nil {
		x.UndelCount = map[string]int{}
		x.OverdrawnSeen = map[string]bool{}
	}
	if op.K == KUndelegate && res.OK {
		x.UndelCount[op.Denom]++
	}
	if x.ShareOps == nil {
		x.ShareOps = map[string]int{}
		x.MaxShareTotal = map[string]*big.Rat{}
		x.MaxTotal = map[string]*big.Rat{}
	}
	if (op.K == KUndelegate || op.K == KRedelegate) && res.OK {
		x.ShareOps[op.Denom]++
	}
	for _, s := range []*Snap{pre, post} {
		for _, dn := range s.AssetOrder {
			if v := ratAbs(decRat(s.Assets[dn].TotalValidatorShares)); x.MaxShareTotal[dn] == nil || v.Cmp(x.MaxShareTotal[dn]) > 0 {
				x.MaxShareTotal[dn] = v
			}
			if v := intRat(s.Assets[dn].TotalTokens); x.MaxTotal[dn] == nil || v.Cmp(x.MaxTotal[dn]) > 0 {
				x.MaxTotal[dn] = v
			}
		}
	}
	// an asset that has shrunk by 15 orders of magnitude without passing through a reset lives on
	// the rounding dust of its former size (18-digit ratios of the big totals left remainders that
	// are now comparable to the whole asset): the over-reporting regime of the listed finding
	// F-C04a, at small absolute size
	for _, dn := range post.AssetOrder {
		t := post.Assets[dn].TotalTokens
		if m := x.MaxTotal[dn]; m != nil && t.IsPositive() && !x.OverdrawnSeen[dn] {
			if new(big.Rat).Mul(intRat(t), new(big.Rat).SetInt(pow10(15))).Cmp(m) <= 0 {
				x.OverdrawnSeen[dn] = true
				x.Label("asset-shrunk-to-the-dust-of-its-former-size")
			}
		}
	}
	// a slash callback that aborts inside SlashValidator's loop over the validator's assets (it
	// meets shares of a deleted, overdrawn asset: listed finding F-C04a) has reduced the totals of
	// the assets before it without writing the validator's record: their accounting is not judged
	// afterwards. (An abort later in the callback — a claim that cannot be paid — happens after
	// the record was written and leaves the share ledgers consistent.)
	if (op.K == KSlash || op.K == KSlashHook) && strings.Contains(x.L.LastSlashHookErr, "not whitelisted") {
		for _, dn := range sortedKeys(pre.Vals[op.V].ValShares) {
			x.OverdrawnSeen[dn] = true
		}
		for _, r := range x.L.Redel {
			if r.S == op.V {
				x.OverdrawnSeen[r.Denom] = true
			}
		}
		x.Label("slash-callback-aborted:accounting-not-judged")
	}
	for dn := range x.MaxShareTotal {
		if a, ok := post.Assets[dn]; !ok || (a.TotalTokens.IsZero() && a.TotalValidatorShares.IsZero()) {
			delete(x.MaxShareTotal, dn)
			delete(x.MaxTotal, dn)
			delete(x.ShareOps, dn)
		}
	}
	for _, dn := range post.AssetOrder {
		a := post.Assets[dn]
		if a.TotalTokens.IsZero() && a.TotalValidatorShares.IsZero() {
			x.UndelCount[dn] = 0
		}
		if a.TotalTokens.IsNegative() && !x.OverdrawnSeen[dn] {
			budget := new(big.Rat).Mul(big.NewRat(int64(x.UndelCount[dn]), 1), new(big.Rat).Sub(assetTol(pre, post, dn), big.NewRat(1, 1)))
			if new(big.Rat).Neg(intRat(a.TotalTokens)).Cmp(budget) <= 0 {
				x.OverdrawnSeen[dn] = true
				x.Label("staked-total-negative-by-rounded-up-withdrawals")
			}
		}
	}
	for i := range post.Vals {
		if pre.Vals[i].Status != 0 && post.Vals[i].Status == 0 {
			x.Label("validator-removed")
			marked := false
			// shares the module still recorded for the validator (with or without delegations
			// behind them) vanish with the record, the asset's share total keeps them
			for _, dn := range sortedKeys(pre.Vals[i].ValShares) {
				if pre.Vals[i].ValShares[dn].IsPositive() {
					if x.RemovedWithStake == nil {
						x.RemovedWithStake = map[string]bool{}
					}
					x.RemovedWithStake[fmt.Sprintf("%d|%s", i, dn)] = true
					x.RemovedWithStake[dn] = true
				}
			}
			for _, d := range post.Dels {
				if d.V == i {
					if x.RemovedWithStake == nil {
						x.RemovedWithStake = map[string]bool{}
					}
					x.RemovedWithStake[fmt.Sprintf("%d|%s", i, d.Denom)] = true
					x.RemovedWithStake[d.Denom] = true
					if !marked {
						x.Label("validator-removed-with-alliance-delegations")
						marked = true
					}
				}
			}
		}
		if pre.Vals[i].Status == 0 && post.Vals[i].Status != 0 {
			x.Label("validator-created-again")
		}
	}
	switch op.K {
	case KSlash, KSlashHook:
		if x.L.LastSlashFrac == nil {
			break
		}
		for _, u := range pre.Unb {
			for _, e := range u.Entries {
				if e.V == op.V && !u.Completion.Before(pre.Time) {
					x.Label("slash-hit-unbonding")
				}
			}
		}
		for _, r := range pre.Redels {
			if r.S == op.V && !r.Completion.Before(pre.Time) {
				x.Label("slash-hit-redelegation")
			}
		}
		for _, sh := range pre.Vals[op.V].ValShares {
			if sh.IsPositive() {
				x.Label("slashed-with-stake")
			}
		}
		if x.L.LastSlashHookErr != "" {
			x.Label("slash-hook-error")
		}
	case KBlock:
		if !res.OK {
			x.Label("halted")
			break
		}
		for _, d := range post.AssetOrder {
			a, ok := pre.Assets[d]
			if ok && post.Assets[d].TotalTokens.LT(a.TotalTokens) {
				x.Label("takerate-deducted")
			}
			if ok && !post.Assets[d].RewardWeight.Equal(a.RewardWeight) {
				x.Label("weight-decayed")
			}
		}
		if len(x.L.Due) > 0 {
			x.Label("unbonding-paid")
		}
		if len(post.Redels) < len(pre.Redels) {
			x.Label("redelegation-matured")
		}
		for i := range post.Vals {
			if post.Vals[i].Status != pre.Vals[i].Status {
				x.Label("bond-status-changed")
			}
		}
	case KUndelegate, KRedelegate:
		if res.OK {
			for _, d := range pre.AssetOrder {
				if pre.Assets[d].TotalTokens.IsPositive() && post.Assets[d].TotalTokens.IsZero() {
					x.Label("c03:asset-empty-after-stake")
				}
			}
			// ratio distorted?
			a := pre.Assets[op.Denom]
			if !a.TotalValidatorShares.IsNil() && a.TotalTokens.IsPositive() &&
				decRat(a.TotalValidatorShares).Cmp(new(big.Rat).SetInt(a.TotalTokens.BigInt())) != 0 {
				x.Label("ratio-distorted-op")
			}
		}
	}
	for _, b := range post.Unb {
		if len(b.Entries) >= 2 {
			x.Label("bucket>=2")
			v0, d0 := b.Entries[0].V, b.Entries[0].Denom
			for _, e := range b.Entries[1:] {
				if e.V != v0 || e.Denom != d0 {
					x.Label("bucket-mixed")
				}
			}
		}
	}
}
