package harness

// ledger.go — the history-derived reference model. It is maintained only from the
// ops the harness issued, their success/failure and the specification; it never
// reads the module's own records (the one exception, Resync, is used solely to adopt
// the implementation's value after a deviation has been classified as a listed
// known finding, so that the search can continue past it).

import (
	"fmt"
	"math/big"
	"sort"
	"time"

	sdk "github.com/cosmos/cosmos-sdk/types"
)

type LUnb struct {
	D, V       int
	Denom      string
	Completion time.Time
	Remaining  *big.Int
	Orig       *big.Int
	Step       int
}

type LRedel struct {
	D, S, T    int
	Denom      string
	Amt        *big.Int
	Completion time.Time
	Step       int
}

type Ledger struct {
	UnbondingTime time.Duration
	Unb           []*LUnb
	Redel         []*LRedel
	Donated       map[string]*big.Int
	MintedFees    sdk.Coins // minted by the harness as block fees
	DonorMinted   sdk.Coins
	// LastSlashFrac is the effective fraction of the most recent slash op (set by record).
	LastSlashFrac    *big.Rat
	LastSlashRemoved map[string]*big.Int
	LastSlashHookErr string
	// Due are the unbondings that the most recent end-of-block had to pay.
	Due []*LUnb
	// ClaimInterval / RewardDelay: what the last accepted governance message configured
	// (-1: no update_params seen yet in this history)
	ClaimInterval int64
	RewardDelay   int64
}

func (l *Ledger) init() {
	l.UnbondingTime = 21 * 24 * time.Hour // staking default params, as in the base state
	l.Donated = map[string]*big.Int{}
	l.MintedFees = sdk.NewCoins()
	l.DonorMinted = sdk.NewCoins()
	l.ClaimInterval, l.RewardDelay = -1, -1
}

func bigOf(s string) *big.Int {
	b, ok := new(big.Int).SetString(s, 10)
	if !ok {
		panic("bad int " + s)
	}
	return b
}

// record updates the ledger after an op. It is called before the oracles' After.
func (l *Ledger) record(x *Exec, op *Op, res *Res) {
	now := x.Ctx.BlockTime()
	step := len(x.Log) - 1
	switch op.K {
	case KUndelegate:
		if res.OK {
			c := now.Add(l.UnbondingTime)
			res.Completion = c.UnixNano()
			l.Unb = append(l.Unb, &LUnb{D: op.D, V: op.V, Denom: op.Denom, Completion: c, Remaining: bigOf(op.Amt), Orig: bigOf(op.Amt), Step: step})
		}
	case KRedelegate:
		if res.OK {
			c := now.Add(l.UnbondingTime)
			res.Completion = c.UnixNano()
			l.Redel = append(l.Redel, &LRedel{D: op.D, S: op.V, T: op.W, Denom: op.Denom, Amt: bigOf(op.Amt), Completion: c, Step: step})
		}
	case KDonate:
		if res.OK {
			if l.Donated[op.Denom] == nil {
				l.Donated[op.Denom] = new(big.Int)
			}
			l.Donated[op.Denom].Add(l.Donated[op.Denom], bigOf(op.Amt))
			l.DonorMinted = l.DonorMinted.Add(sdk.NewCoin(op.Denom, parseInt(op.Amt)))
		}
	case KUnbTime:
		if res.OK {
			l.UnbondingTime = time.Duration(op.Dt)
		}
	case KParams:
		if res.OK {
			l.ClaimInterval, l.RewardDelay = op.Interval, op.Delay
		}
	case KBlock:
		// The end-of-block part ran at the *old* block time x.LastEndTime.
		l.Due = nil
		if res.AllianceEBErr == "" && res.StakingEBErr == "" {
			l.Due = l.matureAt(x.LastEndTime)
			if op.Fees != "" && res.OK {
				fees, err := sdk.ParseCoinsNormalized(op.Fees)
				if err == nil {
					l.MintedFees = l.MintedFees.Add(fees...)
				}
			}
		}
	case KSlashHook, KSlash:
		l.LastSlashFrac, l.LastSlashRemoved, l.LastSlashHookErr = nil, nil, ""
		var f *big.Rat
		if op.K == KSlashHook {
			f = decRat(parseDec(op.Frac))
			if !res.OK {
				l.LastSlashHookErr = res.Err + res.Panic
			}
		} else {
			// effective fraction as x/staking computes it, derived from staking state only:
			// burned / tokens-before, rounded up at 18 digits, capped at 1.
			pre, post := x.Pre().Vals[op.V], x.Post().Vals[op.V]
			burned := new(big.Int).Sub(pre.Tokens.BigInt(), post.Tokens.BigInt())
			if burned.Sign() <= 0 || pre.Tokens.IsZero() {
				return // hook not invoked
			}
			num := new(big.Int).Mul(burned, precisionReuse)
			q, m := new(big.Int).DivMod(num, pre.Tokens.BigInt(), new(big.Int))
			if m.Sign() != 0 {
				q.Add(q, big.NewInt(1))
			}
			f = new(big.Rat).SetFrac(q, precisionReuse)
			if f.Cmp(big.NewRat(1, 1)) > 0 {
				f = big.NewRat(1, 1)
			}
			for _, e := range x.ErrLogs {
				if e.Step == step && e.Msg == "failed to call before validator slashed hook" {
					l.LastSlashHookErr = e.Detail
				}
			}
		}
		l.LastSlashFrac = f
		if l.LastSlashHookErr == "" {
			l.LastSlashRemoved = l.applySlash(op.V, f, now)
		}
	}
}

// matureAt removes and returns the unbondings that the end-of-block at block time T
// must pay: completion strictly before T.
func (l *Ledger) matureAt(T time.Time) (due []*LUnb) {
	var keep []*LUnb
	for _, u := range l.Unb {
		if u.Completion.Before(T) {
			due = append(due, u)
		} else {
			keep = append(keep, u)
		}
	}
	l.Unb = keep
	var keepR []*LRedel
	for _, r := range l.Redel {
		if !r.Completion.Before(T) {
			keepR = append(keepR, r)
		}
	}
	l.Redel = keepR
	return due
}

// applySlash applies the specified effect of slashing validator v by fraction f at
// block time T to pending unbondings: each entry from v with completion >= T loses
// floor(f*remaining), once. Returns the total removed per denom.
func (l *Ledger) applySlash(v int, f *big.Rat, T time.Time) map[string]*big.Int {
	removed := map[string]*big.Int{}
	for _, u := range l.Unb {
		if u.V != v || u.Completion.Before(T) {
			continue
		}
		cut := ratFloor(new(big.Rat).Mul(f, new(big.Rat).SetInt(u.Remaining)))
		u.Remaining = new(big.Int).Sub(u.Remaining, cut)
		if removed[u.Denom] == nil {
			removed[u.Denom] = new(big.Int)
		}
		removed[u.Denom].Add(removed[u.Denom], cut)
	}
	return removed
}

// unbKey identifies the bucket position of an entry as the store sees it.
func unbKey(d, v int, denom string, c time.Time) string {
	return fmt.Sprintf("%d|%d|%s|%d", d, v, denom, c.UnixNano())
}

// UnbMultiset renders pending unbondings as sorted "key=amount" strings.
func (l *Ledger) UnbMultiset() []string {
	var out []string
	for _, u := range l.Unb {
		out = append(out, unbKey(u.D, u.V, u.Denom, u.Completion)+"="+u.Remaining.String())
	}
	sort.Strings(out)
	return out
}

func (s *Snap) UnbMultiset() []string {
	var out []string
	for _, b := range s.Unb {
		for _, e := range b.Entries {
			out = append(out, unbKey(e.D, e.V, e.Denom, b.Completion)+"="+e.Amt.String())
		}
	}
	sort.Strings(out)
	return out
}

// ResyncUnb adopts the store's unbonding amounts (only after a known finding was classified).
func (l *Ledger) ResyncUnb(s *Snap) {
	l.Unb = nil
	for _, b := range s.Unb {
		for _, e := range b.Entries {
			l.Unb = append(l.Unb, &LUnb{D: e.D, V: e.V, Denom: e.Denom, Completion: b.Completion, Remaining: new(big.Int).Set(e.Amt.BigInt()), Orig: new(big.Int).Set(e.Amt.BigInt())})
		}
	}
}

func eqStrings(a, b []string) bool {
	if len(a) != len(b) {
		return false
	}
	for i := range a {
		if a[i] != b[i] {
			return false
		}
	}
	return true
}

func (l *Ledger) clone() Ledger {
	c := *l
	c.Unb = nil
	for _, u := range l.Unb {
		cu := *u
		cu.Remaining = new(big.Int).Set(u.Remaining)
		c.Unb = append(c.Unb, &cu)
	}
	c.Redel = nil
	for _, r := range l.Redel {
		cr := *r
		c.Redel = append(c.Redel, &cr)
	}
	c.Donated = map[string]*big.Int{}
	for k, v := range l.Donated {
		c.Donated[k] = new(big.Int).Set(v)
	}
	return c
}
