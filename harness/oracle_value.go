package harness

// oracle_value.go — C04 (position isolation), C15 (redelegation) and shared value helpers.

import (
	"fmt"
	"math/big"
	"strings"

	"cosmossdk.io/math"

	alliancetypes "github.com/terra-money/alliance/x/alliance/types"
)

// tol is the stated tolerance for quantities that pass through 18-digit fixed point:
// 2 base units + 20 * TotalTokens * 1e-18 (DESIGN §2.6).
func tolFor(total *big.Int) *big.Rat {
	t := new(big.Rat).SetInt(total)
	t.Mul(t, big.NewRat(20, 1_000_000_000_000_000_000))
	return t.Add(t, big.NewRat(2, 1))
}

func maxInt(a, b *big.Int) *big.Int {
	if a.Cmp(b) >= 0 {
		return a
	}
	return b
}

// amplification is the factor by which the 18-digit fixed-point error of the module's
// share prices is magnified in state s: the module computes shares-per-token ratios
// (asset level: TotalValidatorShares/TotalTokens; validator level: delegator shares /
// validator tokens) rounded at 10^-18, so when such a ratio is r < 1 (which only
// slashes produce) its relative error is 10^-18 / r.
func amplification(s *Snap, denom string) *big.Rat {
	a, ok := s.Assets[denom]
	one := big.NewRat(1, 1)
	if !ok || a.TotalTokens.IsZero() || a.TotalValidatorShares.IsZero() {
		return one
	}
	amp := new(big.Rat).Quo(intRat(a.TotalTokens), decRat(a.TotalValidatorShares))
	if amp.Cmp(one) < 0 {
		amp = one
	}
	maxB := big.NewRat(1, 1)
	for i := range s.Vals {
		tds, ok := s.Vals[i].DelShares[denom]
		if !ok || tds.IsZero() {
			continue
		}
		vt := s.ValTokens(i, denom)
		b := new(big.Rat).Quo(vt, decRat(tds))
		if b.Cmp(maxB) > 0 {
			maxB = b
		}
	}
	return amp.Mul(amp, maxB)
}

// assetTol = 2 + 20 * TotalTokens * 1e-18 * amplification (larger of pre/post state).
func assetTol(pre, post *Snap, denom string) *big.Rat {
	a, b := new(big.Int), new(big.Int)
	if as, ok := pre.Assets[denom]; ok {
		a = as.TotalTokens.BigInt()
	}
	if as, ok := post.Assets[denom]; ok {
		b = as.TotalTokens.BigInt()
	}
	margin := new(big.Rat)
	t := new(big.Rat).SetInt(maxInt(new(big.Int).Abs(a), new(big.Int).Abs(b)))
	t.Mul(t, big.NewRat(20, 1_000_000_000_000_000_000))
	amp := amplification(pre, denom)
	if a2 := amplification(post, denom); a2.Cmp(amp) > 0 {
		amp = a2
	}
	t.Mul(t, amp)
	t.Add(t, big.NewRat(2, 1))
	// the module's documented rounding margin is 0.01 SHARE (a remainder below it counts as a full
	// withdrawal, the reported balance adds 0.01 before flooring): where a slash elsewhere made a
	// delegator share worth many tokens that margin is 0.01 x tokens-per-share
	for _, s := range []*Snap{pre, post} {
		for i := range s.Vals {
			if tds, ok := s.Vals[i].DelShares[denom]; ok && tds.IsPositive() {
				if tps := new(big.Rat).Quo(s.ValTokens(i, denom), decRat(tds)); tps.Cmp(big.NewRat(1, 1)) > 0 {
					if m := new(big.Rat).Mul(tps, big.NewRat(1, 100)); m.Cmp(margin) > 0 {
						margin = m
					}
				}
			}
		}
	}
	t.Add(t, margin)
	// rounding dust in the share total (listed finding F-C03: the validators' shares do not sum
	// exactly to the asset's share total) is an absolute number of shares; once the asset has
	// shrunk, each of them is worth TotalTokens / share total tokens. The observed mismatch, valued
	// at that price, is added (zero in ordinary states).
	worst := new(big.Rat)
	for _, s := range []*Snap{pre, post} {
		as, ok := s.Assets[denom]
		if !ok || !as.TotalValidatorShares.IsPositive() || !as.TotalTokens.IsPositive() {
			continue
		}
		sum := new(big.Rat)
		for i := range s.Vals {
			if sh, ok := s.Vals[i].ValShares[denom]; ok {
				sum.Add(sum, decRat(sh))
			}
		}
		mis := ratAbs(new(big.Rat).Sub(sum, decRat(as.TotalValidatorShares)))
		// ... but only as much of it as rounding can explain: the F-C03 allowance of this history
		allowance := new(big.Rat)
		if curExec != nil && curExec.MaxShareTotal[denom] != nil {
			allowance.Mul(curExec.MaxShareTotal[denom], big.NewRat(1, 1_000_000_000_000_000_000))
			allowance.Add(allowance, big.NewRat(1, 1))
			allowance.Mul(allowance, big.NewRat(int64(curExec.ShareOps[denom]), 1))
		}
		if mis.Cmp(allowance) > 0 {
			mis = allowance
		}
		if mis.Sign() == 0 {
			continue
		}
		v := new(big.Rat).Mul(mis, new(big.Rat).Quo(intRat(as.TotalTokens), decRat(as.TotalValidatorShares)))
		if v.Cmp(worst) > 0 {
			worst = v
		}
	}
	t.Add(t, worst)
	return t
}

// roundTripRegime quantifies, in delegator shares of validator d.V, how far the module's
// tokens -> shares conversion can be off: its token-value uncertainty (assetTol - 2)
// times the validator's shares-per-token ratio (which take-rate deductions push above
// 1). Once this exceeds the module's 0.01-share "Rounder" margin the reported balance
// is not reliably withdrawable (listed finding F-C20c).
func roundTripRegime(s *Snap, d DelSnap) *big.Rat {
	r := new(big.Rat).Sub(assetTol(s, s, d.Denom), big.NewRat(2, 1))
	if d.V < 0 {
		return r
	}
	vt := s.ValTokens(d.V, d.Denom)
	tds, ok := s.Vals[d.V].DelShares[d.Denom]
	if ok && vt.Sign() > 0 {
		spt := new(big.Rat).Quo(decRat(tds), vt)
		if spt.Cmp(big.NewRat(1, 1)) > 0 {
			r.Mul(r, spt)
		}
	}
	return r
}

// degenerateAsset: staked total > 0 but no validator shares at all — the state left by
// a 100% slash of every validator holding the asset's shares (listed finding F-C04a).
func degenerateAsset(s *Snap, denom string) bool {
	a, ok := s.Assets[denom]
	return ok && a.TotalTokens.IsPositive() && a.TotalValidatorShares.IsZero()
}

// orphanedValidator: some validator carries token value in denom but (practically) no
// delegator shares (its delegations were slashed away through redelegation slashing).
func orphanedValidator(s *Snap, denom string) bool {
	for i := range s.Vals {
		vs, ok := s.Vals[i].ValShares[denom]
		if !ok || !vs.IsPositive() {
			continue
		}
		tds, ok2 := s.Vals[i].DelShares[denom]
		// less than one delegator share in total: the module itself treats this as "no
		// shares" and prices new shares 1:1 (GetDelegationSharesFromTokens), i.e. the
		// validator's value has effectively no owner
		if !ok2 || tds.TruncateInt().IsZero() {
			return true
		}
	}
	return false
}

func posMap(s *Snap, denom string) map[string]*big.Rat {
	m := map[string]*big.Rat{}
	for _, d := range s.Dels {
		if denom == "" || d.Denom == denom {
			m[d.Key()] = s.PosValue(d)
		}
	}
	return m
}

func ratAbs(r *big.Rat) *big.Rat { return new(big.Rat).Abs(r) }

func noteErr(x *Exec, name string, err, tol *big.Rat) {
	if tol.Sign() == 0 {
		return
	}
	r, _ := new(big.Rat).Quo(ratAbs(err), tol).Float64()
	if r > x.ErrOverTol[name] {
		x.ErrOverTol[name] = r
	}
}

// ---------- C04 ----------

type OracleC04 struct{}

func (OracleC04) Name() string           { return "C04" }
func (OracleC04) Before(x *Exec, op *Op) {}
func (OracleC04) End(x *Exec)            {}

// precisionCollapsed reports whether the 18-digit share price of validator v in denom
// cannot represent one base unit to within the stated tolerance any more: the
// delegator-shares : tokens ratio is so small that the fixed-point quotient
// shares/tokens has fewer than 6 significant digits.
func degenerate(s *Snap, v int, denom string) bool {
	vt := s.ValTokens(v, denom)
	tds, ok := s.Vals[v].DelShares[denom]
	if !ok || tds.IsZero() || vt.Sign() == 0 {
		return vt.Sign() == 0 && ok && !tds.IsZero()
	}
	return false
}

func (o OracleC04) After(x *Exec, op *Op, res *Res) {
	if !res.OK {
		return
	}
	switch op.K {
	case KDelegate, KUndelegate, KRedelegate, KClaim:
	default:
		return
	}
	pre, post := x.Pre(), x.Post()
	denom := op.Denom
	if _, ok := pre.Assets[denom]; !ok {
		return
	}
	if x.PrecisionCollapsed(denom) || degenerateAsset(pre, denom) || orphanedValidator(pre, denom) {
		// Listed finding F-C04a: value without owner (staked total with zero validator
		// shares after a 100% slash of every share-holding validator, or a validator
		// whose delegator shares were all removed by redelegation slashing). The next
		// operation re-attributes that value. Counted, not judged.
		x.KnownFinding("F-C04a")
		x.Label("c04:ownerless-value-state")
		return
	}
	tol := assetTol(pre, post, denom)
	amt := new(big.Rat)
	if op.Amt != "" {
		amt.SetInt(bigOf(op.Amt))
	}
	expect := map[string]*big.Rat{} // expected delta per position key
	actor := fmt.Sprintf("%d/%d/%s", op.D, op.V, denom)
	switch op.K {
	case KDelegate:
		expect[actor] = amt
	case KUndelegate:
		expect[actor] = new(big.Rat).Neg(amt)
	case KRedelegate:
		expect[actor] = new(big.Rat).Neg(amt)
		expect[fmt.Sprintf("%d/%d/%s", op.D, op.W, denom)] = amt
	}
	a := pre.Assets[denom]
	distorted := a.TotalTokens.IsPositive() && decRat(a.TotalValidatorShares).Cmp(intRat(a.TotalTokens)) != 0
	if distorted && len(pre.DelsOfAsset(denom)) >= 2 {
		x.Label("c04:distorted-ratio-multi-position")
	}
	if op.K == KClaim {
		// a claim changes no share record at all
		for _, d := range pre.Dels {
			nd, ok := post.FindDel(d.D, d.V, d.Denom)
			if !ok || !nd.Shares.Equal(d.Shares) {
				x.Fail("C04", "claim-neutral", "claim changed the shares of position %s", d.Key())
			}
		}
		for i, v := range pre.Vals {
			for _, dn := range sortedKeys(v.ValShares) {
				if !post.Vals[i].ValShares[dn].Equal(v.ValShares[dn]) {
					x.Fail("C04", "claim-neutral", "claim changed validator %d's shares of %s", i, dn)
				}
			}
		}
	}
	before, after := posMap(pre, denom), posMap(post, denom)
	keys := map[string]bool{}
	for k := range before {
		keys[k] = true
	}
	for k := range after {
		keys[k] = true
	}
	for _, k := range sortedKeys(keys) {
		b, a2 := before[k], after[k]
		if b == nil {
			b = new(big.Rat)
		}
		if a2 == nil {
			a2 = new(big.Rat)
		}
		delta := new(big.Rat).Sub(a2, b)
		want := expect[k]
		if want == nil {
			want = new(big.Rat)
		}
		err := new(big.Rat).Sub(delta, want)
		who := "another position"
		if expect[k] != nil {
			who = "the acting position"
		}
		noteErr(x, "c04-value/tol", err, tol)
		if ratAbs(err).Cmp(tol) > 0 {
			x.Fail("C04", "isolation", "%s of %s %s: %s %s changed by %s, expected %s (tolerance %s)", op.K, op.Amt, denom, who, k, delta.FloatString(6), want.FloatString(0), tol.FloatString(6))
		}
	}
	// positions in other denoms are untouched exactly (their share records cannot change)
	for _, d := range pre.Dels {
		if d.Denom == denom {
			continue
		}
		nd, ok := post.FindDel(d.D, d.V, d.Denom)
		if !ok || !nd.Shares.Equal(d.Shares) {
			x.Fail("C04", "isolation", "%s in %s changed the shares of position %s", op.K, denom, d.Key())
		}
	}
	// a delegate-then-undelegate round trip never returns more than was put in: a freshly
	// created position must not be reported (nor be worth) more than the amount delegated.
	// Judged only where the module's arithmetic resolves single units (outside the rounding
	// regime of the listed finding F-C20c).
	if op.K == KDelegate {
		if _, existed := pre.FindDel(op.D, op.V, denom); !existed {
			if nd, ok := post.FindDel(op.D, op.V, denom); ok && roundTripRegime(post, nd).Cmp(big.NewRat(1, 100)) < 0 {
				x.Label("c04:round-trip-probed")
				qc, _ := x.Ctx.CacheContext()
				qr, err := x.W.Query.AllianceDelegation(qc, &alliancetypes.QueryAllianceDelegationRequest{DelegatorAddr: nd.Del, ValidatorAddr: nd.Val, Denom: denom})
				if err == nil && qr.Delegation.Balance.Amount.BigInt().Cmp(bigOf(op.Amt)) > 0 {
					x.Fail("C04", "round-trip", "a fresh delegation of %s %s is reported as %s: undelegating it would return more than was put in", op.Amt, denom, qr.Delegation.Balance.Amount)
				}
			}
		}
	}
	// Σ reported values <= TotalTokens + #positions + tol
	o.sumBound(x, post, denom)
}

func (OracleC04) sumBound(x *Exec, s *Snap, denom string) {
	a, ok := s.Assets[denom]
	if !ok || x.PrecisionCollapsed(denom) {
		return
	}
	sum := new(big.Int)
	n := 0
	for _, d := range s.DelsOfAsset(denom) {
		sum.Add(sum, s.Reported(d))
		n++
	}
	bound := new(big.Rat).SetInt(a.TotalTokens.BigInt())
	bound.Add(bound, big.NewRat(int64(n), 1))
	bound.Add(bound, assetTol(s, s, denom))
	if new(big.Rat).SetInt(sum).Cmp(bound) > 0 {
		x.Fail("C04", "sum-bound", "reported values of the %d positions in %s sum to %s > staked total %s + one unit per position + tolerance", n, denom, sum, a.TotalTokens)
	}
}

// ---------- C15 ----------

type OracleC15 struct{}

func (OracleC15) Name() string           { return "C15" }
func (OracleC15) Before(x *Exec, op *Op) {}
func (OracleC15) End(x *Exec)            {}

func (o OracleC15) After(x *Exec, op *Op, res *Res) {
	pre, post := x.Pre(), x.Post()
	switch op.K {
	case KRedelegate:
		if _, ok := pre.Assets[op.Denom]; !ok || op.V == op.W {
			break
		}
		// transitive rule, both ways, from the history-derived ledger
		blocked := false
		for _, r := range preLedgerRedel(x) {
			if r.D == op.D && r.T == op.V && r.Denom == op.Denom {
				blocked = true
			}
		}
		transitiveErr := strings.Contains(res.Err, "transitive")
		if blocked {
			x.Label("c15:hop-attempt-while-pending")
			if res.OK {
				x.Fail("C15", "transitive", "delegator %d redelegated %s out of validator %d while a redelegation into it is still pending", op.D, op.Denom, op.V)
			}
		} else if transitiveErr {
			x.Fail("C15", "transitive", "redelegation out of validator %d rejected as transitive although the history holds no pending redelegation of delegator %d into it", op.V, op.D)
		}
		if !res.OK {
			break
		}
		x.Label("c15:redelegated")
		if x.PrecisionCollapsed(op.Denom) || degenerateAsset(pre, op.Denom) || orphanedValidator(pre, op.Denom) {
			x.Label("c15:ownerless-value-state")
			o.compareStore(x, post, "after redelegate")
			break
		}
		tol := assetTol(pre, post, op.Denom)
		amt := new(big.Rat).SetInt(bigOf(op.Amt))
		src := fmt.Sprintf("%d/%d/%s", op.D, op.V, op.Denom)
		dst := fmt.Sprintf("%d/%d/%s", op.D, op.W, op.Denom)
		before, after := posMap(pre, op.Denom), posMap(post, op.Denom)
		get := func(m map[string]*big.Rat, k string) *big.Rat {
			if m[k] == nil {
				return new(big.Rat)
			}
			return m[k]
		}
		dSrc := new(big.Rat).Sub(get(after, src), get(before, src))
		dDst := new(big.Rat).Sub(get(after, dst), get(before, dst))
		e1 := new(big.Rat).Add(dSrc, amt)
		e2 := new(big.Rat).Sub(dDst, amt)
		noteErr(x, "c15-value/tol", e1, tol)
		noteErr(x, "c15-value/tol", e2, tol)
		if ratAbs(e1).Cmp(tol) > 0 || ratAbs(e2).Cmp(tol) > 0 {
			x.Fail("C15", "value-move", "redelegate %s %s: source position changed by %s, destination by %s (tolerance %s)", op.Amt, op.Denom, dSrc.FloatString(6), dDst.FloatString(6), tol.FloatString(6))
		}
		if !pre.Assets[op.Denom].TotalTokens.Equal(post.Assets[op.Denom].TotalTokens) {
			x.Fail("C15", "conservation", "redelegation changed the staked total of %s", op.Denom)
		}
		// nothing is paid out of custody; what the delegator receives in the asset's own
		// denomination can only be a reward payout (recycled take-rate / slash proceeds)
		ui := op.D
		if op.D == 100 {
			ui = len(pre.Users) - 1
		}
		distrOut := new(big.Int).Sub(amountOf(pre.Distr, op.Denom), amountOf(post.Distr, op.Denom))
		modDelta := new(big.Int).Sub(amountOf(post.Module, op.Denom), amountOf(pre.Module, op.Denom))
		if modDelta.Sign() < 0 || modDelta.Cmp(distrOut) > 0 {
			x.Fail("C15", "conservation", "redelegation changed custody of %s by %s", op.Denom, modDelta)
		}
		got := new(big.Int).Sub(amountOf(post.Users[ui], op.Denom), amountOf(pre.Users[ui], op.Denom))
		fromRewards := new(big.Int).Sub(amountOf(pre.Rewards, op.Denom), amountOf(post.Rewards, op.Denom))
		fromRewards.Add(fromRewards, distrOut)
		if got.Sign() < 0 || got.Cmp(fromRewards) > 0 {
			x.Fail("C15", "pays-nothing", "redelegation changed the delegator's %s balance by %s (reward outflow %s)", op.Denom, got, fromRewards)
		}
		o.compareStore(x, post, "after redelegate")
	case KBlock:
		if res.AllianceEBErr != "" || res.StakingEBErr != "" {
			return
		}
		for _, r := range x.L.Redel {
			if r.Completion.Equal(x.LastEndTime) {
				x.Label("c15:boundary-T==completion")
			}
		}
		o.compareStore(x, post, "after end of block")
	default:
		o.compareStore(x, post, "after "+op.K)
	}
	byBlock := map[int64]int{}
	for _, r := range x.L.Redel {
		byBlock[r.Completion.UnixNano()]++
	}
	for _, n := range byBlock {
		if n >= 2 {
			x.Label("c15:entries-sharing-block")
		}
	}
}

// preLedgerRedel returns the ledger's pending redelegations as they were before this
// step's own record (a successful redelegate appends its entry last).
func preLedgerRedel(x *Exec) []*LRedel {
	step := len(x.Log) - 1
	var out []*LRedel
	for _, r := range x.L.Redel {
		if r.Step != step {
			out = append(out, r)
		}
	}
	return out
}

// compareStore: records (aggregated by their key), per-source index keys and queue
// entries equal the ledger's pending set.
func (OracleC15) compareStore(x *Exec, s *Snap, when string) {
	// records aggregated by key
	want := map[string]*big.Int{}
	wantIdx := map[string]bool{}
	var wantQ []string
	for _, r := range x.L.Redel {
		k := fmt.Sprintf("%d|%s|%d|%d", r.D, r.Denom, r.T, r.Completion.UnixNano())
		if want[k] == nil {
			want[k] = new(big.Int)
		}
		want[k].Add(want[k], r.Amt)
		wantIdx[fmt.Sprintf("%d|%d|%s|%d|%d", r.S, r.Completion.UnixNano(), r.Denom, r.T, r.D)] = true
		wantQ = append(wantQ, fmt.Sprintf("%d|%d|%d|%d|%s|%s", r.Completion.UnixNano(), r.D, r.S, r.T, r.Denom, r.Amt))
	}
	have := map[string]*big.Int{}
	for _, r := range s.Redels {
		k := fmt.Sprintf("%d|%s|%d|%d", r.D, r.Denom, r.T, r.Completion.UnixNano())
		if have[k] == nil {
			have[k] = new(big.Int)
		}
		// (records are compared aggregated by (delegator, denom, destination, completion): an
		// implementation that keeps one record per source is as good as one that merges them)
		have[k].Add(have[k], r.Amt.BigInt())
	}
	hk, wk := sortedKeys(have), sortedKeys(want)
	if !eqStrings(hk, wk) {
		x.Fail("C15", "records", "%s: redelegation records %v differ from the pending set derived from the history %v", when, hk, wk)
	}
	for _, k := range hk {
		if have[k].Cmp(want[k]) != 0 {
			x.Fail("C15", "records", "%s: redelegation record %s holds %s, history says %s", when, k, have[k], want[k])
		}
	}
	haveIdx := map[string]bool{}
	for _, i := range s.RedelIdx {
		haveIdx[fmt.Sprintf("%d|%d|%s|%d|%d", i.S, i.Completion.UnixNano(), i.Denom, i.T, i.D)] = true
	}
	a, b := sortedKeys(haveIdx), sortedKeys(wantIdx)
	if !eqStrings(a, b) {
		x.Fail("C15", "index", "%s: per-source redelegation index %v differs from the pending set %v", when, a, b)
	}
	var haveQ []string
	for _, q := range s.RedelQ {
		haveQ = append(haveQ, fmt.Sprintf("%d|%d|%d|%d|%s|%s", q.Completion.UnixNano(), x.W.DelIndex(q.Del), x.W.ValIndex(q.Src), x.W.ValIndex(q.Dst), q.Denom, q.Amt))
	}
	sortStrings(haveQ)
	sortStrings(wantQ)
	{
		// The time queue only drives the clean-up by key (delegator, source, destination, denom,
		// completion): how many entries carry a key and which amounts they hold is unobservable
		// (a second deletion finds nothing; amounts are judged on the records above; InitGenesis
		// itself queues every imported redelegation twice and merges same-key redelegations). The
		// queue is compared as a set of keys.
		strip := func(a []string) []string {
			var out []string
			for _, v := range a {
				out = append(out, v[:strings.LastIndex(v, "|")])
			}
			sortStrings(out)
			return uniqStrings(out)
		}
		haveQ, wantQ = strip(haveQ), strip(wantQ)
	}
	if !eqStrings(haveQ, wantQ) {
		x.Fail("C15", "queue", "%s: redelegation time queue %v differs from the pending set %v", when, haveQ, wantQ)
	}
}

// predictUndelegate restates, over snapshot values and with the SDK's 18-digit decimal
// operations, the module's documented acceptance rule for Undelegate/Redelegate of amt from
// position d (tokens -> shares at the validator's share price; within 0.01 share of the whole
// position = full withdrawal; more whole shares than the position holds = "shares" refusal;
// shares capped at the position; the shares' token value + 0.01, floored, must cover amt, else
// "tokens" refusal). It is the exact predictor for the listed finding F-C20c: a refusal of a
// reported balance is counted under the finding only when this rule predicts it; a module that
// refuses where the rule accepts is reported.
func predictUndelegate(s *Snap, d DelSnap, amt math.Int) (out string) {
	defer func() {
		if r := recover(); r != nil {
			out = "panic"
		}
	}()
	a, ok := s.Assets[d.Denom]
	if !ok || d.V < 0 {
		return "unknown"
	}
	zero := math.LegacyZeroDec()
	vs, ok := s.Vals[d.V].ValShares[d.Denom]
	if !ok {
		vs = zero
	}
	tds, ok := s.Vals[d.V].DelShares[d.Denom]
	if !ok {
		tds = zero
	}
	total := math.LegacyNewDecFromInt(a.TotalTokens)
	valTokens := total
	if !a.TotalValidatorShares.IsZero() {
		valTokens = vs.Quo(a.TotalValidatorShares).Mul(total)
	}
	var want math.LegacyDec
	if tds.TruncateInt().IsZero() {
		want = math.LegacyNewDecFromInt(amt)
	} else {
		want = tds.Quo(valTokens).MulInt(amt)
	}
	shares := want
	if d.Shares.Sub(want).Abs().LT(math.LegacyNewDecWithPrec(1, 2)) {
		shares = d.Shares
	} else {
		if d.Shares.LT(want.TruncateDec()) {
			return "shares"
		}
		if want.GT(d.Shares) {
			shares = d.Shares
		}
	}
	tokens := valTokens
	if !tds.IsZero() {
		tokens = shares.Quo(tds).Mul(valTokens)
	}
	if amt.GT(tokens.Add(math.LegacyNewDecWithPrec(1, 2)).TruncateInt()) {
		return "tokens"
	}
	return "ok"
}

// refusalPredicted: the module's refusal message matches what the acceptance rule predicts.
func refusalPredicted(s *Snap, d DelSnap, amt math.Int, msg string) bool {
	switch predictUndelegate(s, d, amt) {
	case "shares":
		return strings.Contains(msg, "insufficient delegation shares")
	case "tokens":
		return strings.Contains(msg, "insufficient tokens")
	case "panic", "unknown":
		return true // degenerate states are classified by their own findings
	}
	return false
}

func uniqStrings(a []string) []string {
	var out []string
	for i, v := range a {
		if i == 0 || v != a[i-1] {
			out = append(out, v)
		}
	}
	return out
}
