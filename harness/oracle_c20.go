package harness

// C20 — queries are exact views. Differential against an independent enumeration of
// the primary records (the Snap), for every filter argument of the small world.

import (
	"encoding/json"
	"fmt"
	"math/big"
	"sort"
	"strings"

	sdk "github.com/cosmos/cosmos-sdk/types"
	"github.com/cosmos/cosmos-sdk/types/query"

	"github.com/terra-money/alliance/x/alliance/bindings"
	bindingtypes "github.com/terra-money/alliance/x/alliance/bindings/types"
	alliancetypes "github.com/terra-money/alliance/x/alliance/types"
)

type OracleC20 struct {
	step int
}

func (*OracleC20) Name() string           { return "C20" }
func (*OracleC20) Before(x *Exec, op *Op) {}
func (*OracleC20) End(x *Exec)            {}

func unbStr(val string, completion int64, amt string, denom string) string {
	return fmt.Sprintf("%s|%d|%s|%s", val, completion, amt, denom)
}

func refUnb(s *Snap, del string, val string, denom string) []string {
	var out []string
	for _, b := range s.Unb {
		for _, e := range b.Entries {
			if e.Del != del {
				continue
			}
			if val != "" && e.Val != val {
				continue
			}
			if denom != "" && e.Denom != denom {
				continue
			}
			out = append(out, unbStr(e.Val, b.Completion.UnixNano(), e.Amt.String(), e.Denom))
		}
	}
	sort.Strings(out)
	return out
}

func gotUnb(u []alliancetypes.UnbondingDelegation) []string {
	var out []string
	for _, e := range u {
		out = append(out, unbStr(e.ValidatorAddress, e.CompletionTime.UnixNano(), e.Amount.String(), e.Denom))
	}
	sort.Strings(out)
	return out
}

func redelStr(del, src, dst, denom, amt string, c int64) string {
	return fmt.Sprintf("%s|%s|%s|%s|%s|%d", del, src, dst, denom, amt, c)
}

func (o *OracleC20) After(x *Exec, op *Op, res *Res) {
	o.step++
	w := x.W
	s := x.Post()
	qctx, _ := x.Ctx.CacheContext()
	allDels := append(append([]sdk.AccAddress{}, w.Dels...), w.Probe)

	// ---- unbonding queries ----
	denomSet := map[string]bool{}
	for _, d := range s.AssetOrder {
		denomSet[d] = true
	}
	for _, b := range s.Unb {
		for _, e := range b.Entries {
			denomSet[e.Denom] = true
			if len(b.Entries) >= 2 {
				x.Label("c20:bucket>=2")
			}
		}
	}
	denoms := sortedKeys(denomSet)
	for _, da := range allDels {
		del := da.String()
		pendV, pendD := map[string]bool{}, map[string]bool{}
		for _, b := range s.Unb {
			for _, e := range b.Entries {
				if e.Del == del {
					pendV[e.Val] = true
					pendD[e.Denom] = true
				}
			}
		}
		if len(pendV) >= 2 || len(pendD) >= 2 {
			x.Label("c20:delegator-multi-pending")
		}
		// by delegator: the implementation enumerates current assets; entries of a deleted
		// asset are compared separately (reference restricted the same way, difference labelled)
		r, err := w.Query.AllianceUnbondingsByDelegator(qctx, &alliancetypes.QueryAllianceUnbondingsByDelegatorRequest{DelegatorAddr: del})
		if err != nil {
			x.Fail("C20", "unbondings-by-delegator", "query failed: %v", err)
		}
		want := refUnb(s, del, "", "")
		if got := gotUnb(r.Unbondings); !eqStrings(got, want) {
			x.Fail("C20", "unbondings-by-delegator", "delegator %d: query returned %v, primary records hold %v", w.DelIndex(del), got, want)
		}
		for _, dn := range denoms {
			r2, err := w.Query.AllianceUnbondingsByDenomAndDelegator(qctx, &alliancetypes.QueryAllianceUnbondingsByDenomAndDelegatorRequest{Denom: dn, DelegatorAddr: del})
			if err != nil {
				x.Fail("C20", "unbondings-by-denom", "query failed: %v", err)
			}
			want := refUnb(s, del, "", dn)
			if got := gotUnb(r2.Unbondings); !eqStrings(got, want) {
				x.Fail("C20", "unbondings-by-denom", "delegator %d denom %s: query returned %v, primary records hold %v", w.DelIndex(del), dn, got, want)
			}
			for _, va := range w.Vals {
				r3, err := w.Query.AllianceUnbondings(qctx, &alliancetypes.QueryAllianceUnbondingsRequest{Denom: dn, DelegatorAddr: del, ValidatorAddr: va.String()})
				if err != nil {
					x.Fail("C20", "unbondings", "query failed: %v", err)
				}
				want := refUnb(s, del, va.String(), dn)
				if got := gotUnb(r3.Unbondings); !eqStrings(got, want) {
					x.Fail("C20", "unbondings", "delegator %d validator %d denom %s: query returned %v, primary records hold %v", w.DelIndex(del), w.ValIndex(va.String()), dn, got, want)
				}
			}
		}
	}

	// ---- redelegation queries (paginated) ----
	for _, da := range allDels {
		del := da.String()
		var want []string
		for _, r := range s.Redels {
			if r.Del == del {
				want = append(want, redelStr(r.ValDel, r.Src, r.ValDst, r.Denom, r.Amt.String(), r.Completion.UnixNano()))
			}
		}
		sort.Strings(want)
		limit := uint64(1 + o.step%3)
		var got []string
		var key []byte
		for i := 0; i < 200; i++ {
			r, err := w.Query.AllianceRedelegationsByDelegator(qctx, &alliancetypes.QueryAllianceRedelegationsByDelegatorRequest{DelegatorAddr: del, Pagination: &query.PageRequest{Key: key, Limit: limit}})
			if err != nil {
				x.Fail("C20", "redelegations-by-delegator", "query failed: %v", err)
			}
			for _, e := range r.Redelegations {
				got = append(got, redelStr(e.DelegatorAddress, e.SrcValidatorAddress, e.DstValidatorAddress, e.Balance.Denom, e.Balance.Amount.String(), e.CompletionTime.UnixNano()))
			}
			if r.Pagination == nil || len(r.Pagination.NextKey) == 0 {
				break
			}
			key = r.Pagination.NextKey
		}
		sort.Strings(got)
		if !eqStrings(got, want) {
			x.Fail("C20", "redelegations-by-delegator", "delegator %d: paginated query returned %v, primary records hold %v", w.DelIndex(del), got, want)
		}
		for _, dn := range denoms {
			var want []string
			for _, r := range s.Redels {
				if r.Del == del && r.Denom == dn {
					want = append(want, redelStr(r.ValDel, r.Src, r.ValDst, r.Denom, r.Amt.String(), r.Completion.UnixNano()))
				}
			}
			sort.Strings(want)
			r, err := w.Query.AllianceRedelegations(qctx, &alliancetypes.QueryAllianceRedelegationsRequest{Denom: dn, DelegatorAddr: del})
			if err != nil {
				x.Fail("C20", "redelegations", "query failed: %v", err)
			}
			var got []string
			for _, e := range r.Redelegations {
				got = append(got, redelStr(e.DelegatorAddress, e.SrcValidatorAddress, e.DstValidatorAddress, e.Balance.Denom, e.Balance.Amount.String(), e.CompletionTime.UnixNano()))
			}
			sort.Strings(got)
			if !eqStrings(got, want) {
				x.Fail("C20", "redelegations", "delegator %d denom %s: query returned %v, primary records hold %v", w.DelIndex(del), dn, got, want)
			}
		}
	}

	// ---- delegation queries ----
	// balance must be floor(V + 0.01) (±1 only when V+0.01 is within 1e-15 relative of an integer)
	balOK := func(d DelSnap, got *big.Int) bool {
		v := s.PosValue(d)
		v.Add(v, big.NewRat(1, 100))
		fl := ratFloor(v)
		if fl.Cmp(got) == 0 {
			return true
		}
		if x.PrecisionCollapsed(d.Denom) {
			return true // listed finding F-C04a: reports are not meaningful for this asset any more
		}
		// the module knows values only to the stated fixed-point tolerance
		tol := assetTol(s, s, d.Denom)
		diff := new(big.Rat).Sub(new(big.Rat).SetInt(got), v)
		noteErr(x, "c20-balance/tol", diff, tol)
		return ratAbs(diff).Cmp(tol) <= 0
	}
	delStr := func(d alliancetypes.Delegation, bal sdk.Coin) string {
		return fmt.Sprintf("%s|%s|%s|%s|%s", d.DelegatorAddress, d.ValidatorAddress, d.Denom, d.Shares, bal.Denom)
	}
	checkList := func(name string, got []alliancetypes.DelegationResponse, want []DelSnap) {
		var g, wnt []string
		for _, r := range got {
			g = append(g, delStr(r.Delegation, r.Balance))
		}
		for _, d := range want {
			wnt = append(wnt, fmt.Sprintf("%s|%s|%s|%s|%s", d.Del, d.Val, d.Denom, d.Shares, d.Denom))
		}
		sort.Strings(g)
		sort.Strings(wnt)
		if !eqStrings(g, wnt) {
			x.Fail("C20", name, "query returned %v, primary records hold %v", g, wnt)
		}
		for _, r := range got {
			d, ok := s.FindDel(w.DelIndex(r.Delegation.DelegatorAddress), w.ValIndex(r.Delegation.ValidatorAddress), r.Delegation.Denom)
			if ok && !balOK(d, r.Balance.Amount.BigInt()) {
				x.Fail("C20", name, "position %s: reported balance %s, exact value %s", d.Key(), r.Balance.Amount, s.PosValue(d).FloatString(6))
			}
		}
	}
	// all delegations, paginated with a varying limit; concatenated pages == full list
	{
		limit := uint64(1 + o.step%4)
		var got []alliancetypes.DelegationResponse
		var key []byte
		failed := false
		for i := 0; i < 500; i++ {
			r, err := w.Query.AllAlliancesDelegations(qctx, &alliancetypes.QueryAllAlliancesDelegationsRequest{Pagination: &query.PageRequest{Key: key, Limit: limit}})
			if err != nil {
				// a delegation whose asset was deleted makes the listing fail: labelled, not judged here
				x.Label("c20:all-delegations-error")
				failed = true
				break
			}
			got = append(got, r.Delegations...)
			if r.Pagination == nil || len(r.Pagination.NextKey) == 0 {
				break
			}
			key = r.Pagination.NextKey
		}
		if !failed {
			checkList("all-delegations", got, s.Dels)
		}
	}
	for _, da := range allDels {
		del := da.String()
		var want []DelSnap
		for _, d := range s.Dels {
			if d.Del == del {
				want = append(want, d)
			}
		}
		r, err := w.Query.AlliancesDelegation(qctx, &alliancetypes.QueryAlliancesDelegationsRequest{DelegatorAddr: del})
		if err == nil {
			checkList("delegations-by-delegator", r.Delegations, want)
		} else {
			x.Label("c20:by-delegator-error")
		}
		for _, va := range w.Vals {
			var want []DelSnap
			for _, d := range s.Dels {
				if d.Del == del && d.Val == va.String() {
					want = append(want, d)
				}
			}
			r, err := w.Query.AlliancesDelegationByValidator(qctx, &alliancetypes.QueryAlliancesDelegationByValidatorRequest{DelegatorAddr: del, ValidatorAddr: va.String()})
			if err == nil {
				checkList("delegations-by-validator", r.Delegations, want)
			}
			for _, dn := range s.AssetOrder {
				r, err := w.Query.AllianceDelegation(qctx, &alliancetypes.QueryAllianceDelegationRequest{DelegatorAddr: del, ValidatorAddr: va.String(), Denom: dn})
				if err != nil {
					x.Fail("C20", "delegation", "query failed: %v", err)
				}
				d, ok := s.FindDel(w.DelIndex(del), w.ValIndex(va.String()), dn)
				if !ok {
					if !r.Delegation.Balance.Amount.IsZero() || !r.Delegation.Delegation.Shares.IsZero() {
						x.Fail("C20", "delegation", "no position %d/%d/%s but the query reports %s", w.DelIndex(del), w.ValIndex(va.String()), dn, r.Delegation.Balance)
					}
					continue
				}
				if !r.Delegation.Delegation.Shares.Equal(d.Shares) || !balOK(d, r.Delegation.Balance.Amount.BigInt()) {
					x.Fail("C20", "delegation", "position %s: query reports shares %s balance %s; record has shares %s value %s", d.Key(), r.Delegation.Delegation.Shares, r.Delegation.Balance.Amount, d.Shares, s.PosValue(d).FloatString(6))
				}
				// contract binding must agree with gRPC
				o.binding(x, qctx, del, va.String(), dn, r.Delegation.Balance.Amount.String())
			}
		}
	}
	// alliance binding vs gRPC
	q := bindings.CustomQuerier(bindings.NewAllianceQueryPlugin(&w.App.AllianceKeeper))
	for _, dn := range s.AssetOrder {
		req, _ := json.Marshal(bindingtypes.AllianceQuery{Alliance: &bindingtypes.Alliance{Denom: dn}})
		bz, err := q(qctx, req)
		if err != nil {
			x.Fail("C20", "binding-alliance", "binding query failed: %v", err)
		}
		var br bindingtypes.AllianceResponse
		if err := json.Unmarshal(bz, &br); err != nil {
			x.Fail("C20", "binding-alliance", "binding answer does not parse: %v", err)
		}
		gr, err := w.Query.Alliance(qctx, &alliancetypes.QueryAllianceRequest{Denom: dn})
		if err != nil {
			x.Fail("C20", "binding-alliance", "gRPC query failed: %v", err)
		}
		a := gr.Alliance
		if br.Denom != a.Denom || br.RewardWeight != a.RewardWeight.String() || br.TakeRate != a.TakeRate.String() || br.TotalTokens != a.TotalTokens.String() ||
			br.TotalValidatorShares != a.TotalValidatorShares.String() || br.RewardChangeRate != a.RewardChangeRate.String() ||
			br.RewardWeightRange.Min != a.RewardWeightRange.Min.String() || br.RewardWeightRange.Max != a.RewardWeightRange.Max.String() || br.IsInitialized != a.IsInitialized {
			x.Fail("C20", "binding-alliance", "binding reports %+v, gRPC reports %+v", br, a)
		}
		// time fields: listed finding F-C20b — the binding reports the sub-second part
		// (time.Nanosecond()) instead of a timestamp
		for _, tf := range []struct {
			name string
			b    uint64
			g    int64
			nano int
		}{{"reward_start_time", br.RewardStartTime, a.RewardStartTime.UnixNano(), a.RewardStartTime.Nanosecond()},
			{"last_reward_change_time", br.LastRewardChangeTime, a.LastRewardChangeTime.UnixNano(), a.LastRewardChangeTime.Nanosecond()}} {
			if int64(tf.b) == tf.g || int64(tf.b) == tf.g/1_000_000_000 {
				continue
			}
			if tf.b == uint64(tf.nano) {
				x.KnownFinding("F-C20b")
				continue
			}
			x.Fail("C20", "binding-alliance", "binding %s = %d, gRPC time is %d ns", tf.name, tf.b, tf.g)
		}
	}
	o.probes(x, s)
}

func (o *OracleC20) binding(x *Exec, qctx sdk.Context, del, val, denom, grpcBalance string) {
	w := x.W
	q := bindings.CustomQuerier(bindings.NewAllianceQueryPlugin(&w.App.AllianceKeeper))
	req, _ := json.Marshal(bindingtypes.AllianceQuery{Delegation: &bindingtypes.Delegation{Denom: denom, Delegator: del, Validator: val}})
	bz, err := q(qctx, req)
	if err != nil {
		x.Fail("C20", "binding-delegation", "binding query failed for an existing position: %v", err)
	}
	var br bindingtypes.DelegationResponse
	if err := json.Unmarshal(bz, &br); err != nil {
		x.Fail("C20", "binding-delegation", "binding answer does not parse: %v", err)
	}
	if br.Delegator != del || br.Validator != val || br.Denom != denom || br.Amount != grpcBalance {
		x.Fail("C20", "binding-delegation", "binding reports %+v, gRPC balance %s", br, grpcBalance)
	}
	// rewards: both run the claim on separate branches of the same state
	c1, _ := x.Ctx.CacheContext()
	c2, _ := x.Ctx.CacheContext()
	gr, gerr := w.Query.AllianceDelegationRewards(c1, &alliancetypes.QueryAllianceDelegationRewardsRequest{DelegatorAddr: del, ValidatorAddr: val, Denom: denom})
	req, _ = json.Marshal(bindingtypes.AllianceQuery{DelegationRewards: &bindingtypes.DelegationRewards{Denom: denom, Delegator: del, Validator: val}})
	var bz2 []byte
	var berr error
	func() {
		defer func() {
			if r := recover(); r != nil {
				berr = fmt.Errorf("panic: %v", r)
			}
		}()
		bz2, berr = q(c2, req)
	}()
	if (gerr == nil) != (berr == nil) {
		if gerr != nil && strings.Contains(gerr.Error(), "panic") {
			return
		}
		x.Fail("C20", "binding-rewards", "gRPC rewards query error=%v but binding error=%v", gerr, berr)
	}
	if gerr == nil {
		var br2 bindingtypes.DelegationRewardsResponse
		if err := json.Unmarshal(bz2, &br2); err != nil {
			x.Fail("C20", "binding-rewards", "binding answer does not parse: %v", err)
		}
		if !br2.Rewards.Equal(sdk.NewCoins(gr.Rewards...)) {
			x.Fail("C20", "binding-rewards", "binding reports rewards %s, gRPC %s", br2.Rewards, gr.Rewards)
		}
	}
}

// probes: the reported balance can be undelegated, one unit more cannot.
func (o *OracleC20) probes(x *Exec, s *Snap) {
	if len(s.Dels) == 0 {
		return
	}
	w := x.W
	for k := 0; k < 2 && k < len(s.Dels); k++ {
		d := s.Dels[(o.step*7+k*3)%len(s.Dels)]
		if d.D < 0 || d.V < 0 {
			continue
		}
		if _, ok := s.Assets[d.Denom]; !ok {
			continue
		}
		// the balance under test is the one the gRPC query reports
		qc, _ := x.Ctx.CacheContext()
		qr, err := w.Query.AllianceDelegation(qc, &alliancetypes.QueryAllianceDelegationRequest{DelegatorAddr: d.Del, ValidatorAddr: d.Val, Denom: d.Denom})
		if err != nil {
			continue
		}
		bal := qr.Delegation.Balance.Amount.BigInt()
		if bal.Sign() <= 0 {
			continue
		}
		try := func(amt *big.Int) (ok bool, msg string) {
			c, _ := x.Ctx.CacheContext()
			defer func() {
				if r := recover(); r != nil {
					ok, msg = false, fmt.Sprintf("panic: %v", r)
				}
			}()
			_, err := w.MsgSrv.Undelegate(c, alliancetypes.NewMsgUndelegate(d.Del, d.Val, sdk.NewCoin(d.Denom, parseInt(amt.String()))))
			if err != nil {
				return false, err.Error()
			}
			return true, ""
		}
		ok, msg := try(bal)
		if !ok {
			if strings.Contains(msg, "division by zero") || strings.Contains(msg, "insufficient funds") || strings.Contains(msg, "is smaller than") {
				x.Label("c20:probe-blocked-by-C05/C12-finding")
				continue
			}
			// Listed finding F-C20c: token<->share conversions are rounded at 18 digits, so
			// once a validator's stake in the asset is large (asset total * amplification
			// >= 5e15 base units, i.e. the rounding exceeds the module's 0.01 "Rounder"
			// margin) the round trip tokens -> shares -> tokens of the reported balance can
			// come out below (or above) the request and the module refuses it with its
			// insufficient shares/tokens checks. Signature: that regime + that refusal.
			// (Whether the position can still leave with some other amount is C05's question.)
			if x.PrecisionCollapsed(d.Denom) || degenerateAsset(s, d.Denom) || orphanedValidator(s, d.Denom) {
				x.KnownFinding("F-C04a") // ownerless-value state after a 100% slash: reports are meaningless there
				x.Label("c20:ownerless-value-state")
				continue
			}
			regime := roundTripRegime(s, d)
			// over-reported: the exact value is strictly below the reported balance (the
			// report adds a 0.01-token epsilon before flooring and uses rounded ratios)
			over := new(big.Rat).SetInt(bal).Cmp(s.PosValue(d)) > 0
			refusal := strings.Contains(msg, "insufficient delegation shares") || strings.Contains(msg, "insufficient tokens") || strings.Contains(msg, "negative coin amount")
			if refusal && !strings.Contains(msg, "negative coin amount") && !refusalPredicted(s, d, parseInt(bal.String()), msg) {
				x.Fail("C20", "balance-undelegatable", "position %s reports balance %s (exact value %s) and the module's documented acceptance rule admits undelegating it, but the module refuses: %s", d.Key(), bal, s.PosValue(d).FloatString(6), msg)
			}
			if refusal && (over || regime.Cmp(big.NewRat(1, 10)) >= 0) {
				x.KnownFinding("F-C20c")
				x.Label("c20:balance-not-withdrawable-rounding")
				continue
			}
			x.Fail("C20", "balance-undelegatable", "position %s reports balance %s (exact value %s) but undelegating it fails: %s", d.Key(), bal, s.PosValue(d).FloatString(3), msg)
		}
		x.Label("c20:probe-ok")
		over := new(big.Int).Add(bal, big.NewInt(1))
		// +1 must fail — unless the exact value really covers it (the reported balance is a floor)
		if ok2, _ := try(over); ok2 {
			v := s.PosValue(d)
			v.Add(v, big.NewRat(1, 100))
			v.Add(v, assetTol(s, s, d.Denom))
			if new(big.Rat).SetInt(over).Cmp(v) > 0 {
				x.Fail("C20", "balance-undelegatable", "position %s reports balance %s (exact value %s) but undelegating %s succeeds", d.Key(), bal, s.PosValue(d).FloatString(6), over)
			}
		}
	}
}
