package harness

// C03 — share ledgers: Σ delegation shares == validator's delegator-share total,
// Σ validator shares == asset share total, nothing negative, zero total ⇒ reset.

import (
	"math/big"
	"strings"

	"cosmossdk.io/math"
)

type OracleC03 struct {
	// budget is the dust allowance accumulated per asset: one share plus 10^-18 of the
	// asset's share total per successful share-removing operation (known finding F-C03).
	budget map[string]*big.Rat
}

func NewOracleC03() *OracleC03 { return &OracleC03{budget: map[string]*big.Rat{}} }

func (*OracleC03) Name() string           { return "C03" }
func (*OracleC03) Before(x *Exec, op *Op) {}
func (*OracleC03) End(x *Exec)            {}

func (o *OracleC03) After(x *Exec, op *Op, res *Res) {
	s := x.Post()
	if res.OK && (op.K == KUndelegate || op.K == KRedelegate) {
		if a, ok := x.Pre().Assets[op.Denom]; ok {
			b := o.budget[op.Denom]
			if b == nil {
				b = new(big.Rat)
				o.budget[op.Denom] = b
			}
			add := new(big.Rat).Mul(decRat(a.TotalValidatorShares), big.NewRat(1, 1_000_000_000_000_000_000))
			add.Add(add, big.NewRat(1, 1))
			b.Add(b, add)
		}
	}
	for _, d := range x.Pre().AssetOrder {
		if _, ok := s.Assets[d]; !ok {
			delete(o.budget, d) // asset deleted: a re-created asset starts clean
		}
	}
	if op.K == KReimport && res.OK {
		// a genesis round trip leaves both share ledgers exactly as they were (dust included): the
		// dust allowance of F-C03 must not absorb records lost or altered by export/import
		pre := x.Pre()
		for _, dn := range pre.AssetOrder {
			if !pre.Assets[dn].TotalValidatorShares.Equal(s.Assets[dn].TotalValidatorShares) || !pre.Assets[dn].TotalTokens.Equal(s.Assets[dn].TotalTokens) {
				x.Fail("C03", "import", "export/import changed the totals of asset %s: shares %s -> %s, tokens %s -> %s", dn, pre.Assets[dn].TotalValidatorShares, s.Assets[dn].TotalValidatorShares, pre.Assets[dn].TotalTokens, s.Assets[dn].TotalTokens)
			}
		}
		for i := range pre.Vals {
			for _, m := range []struct {
				name string
				a, b map[string]math.LegacyDec
			}{{"validator shares", pre.Vals[i].ValShares, s.Vals[i].ValShares}, {"delegator-share total", pre.Vals[i].DelShares, s.Vals[i].DelShares}} {
				keys := map[string]bool{}
				for k := range m.a {
					keys[k] = true
				}
				for k := range m.b {
					keys[k] = true
				}
				for _, k := range sortedKeys(keys) {
					av, bv := m.a[k], m.b[k]
					if av.IsNil() {
						av = math.LegacyZeroDec()
					}
					if bv.IsNil() {
						bv = math.LegacyZeroDec()
					}
					if !av.Equal(bv) {
						x.Fail("C03", "import", "export/import changed the %s of validator %d in %s: %s -> %s", m.name, i, k, av, bv)
					}
				}
			}
		}
		if len(pre.Dels) != len(s.Dels) {
			x.Fail("C03", "import", "export/import changed the number of delegations: %d -> %d", len(pre.Dels), len(s.Dels))
		}
		for i := range pre.Dels {
			if pre.Dels[i].Key() != s.Dels[i].Key() || !pre.Dels[i].Shares.Equal(s.Dels[i].Shares) {
				x.Fail("C03", "import", "export/import changed delegation %s (%s shares) into %s (%s shares)", pre.Dels[i].Key(), pre.Dels[i].Shares, s.Dels[i].Key(), s.Dels[i].Shares)
			}
		}
		x.Label("c03:ledgers-compared-across-import")
	}
	// delegator-share sums per (validator, denom)
	sum := map[string]math.LegacyDec{}
	for _, d := range s.Dels {
		if d.Shares.IsNegative() {
			x.Fail("C03", "negative", "delegation %s has negative shares %s", d.Key(), d.Shares)
		}
		k := d.Val + "|" + d.Denom
		if cur, ok := sum[k]; ok {
			sum[k] = cur.Add(d.Shares)
		} else {
			sum[k] = d.Shares
		}
	}
	for _, v := range s.Vals {
		for _, denom := range sortedKeys(v.DelShares) {
			tot := v.DelShares[denom]
			if tot.IsNegative() {
				x.Fail("C03", "negative", "validator %d delegator-share total of %s is negative: %s", v.Idx, denom, tot)
			}
			have, ok := sum[v.Addr+"|"+denom]
			if !ok {
				have = math.LegacyZeroDec()
			}
			if x.Orphaned(v.Idx, denom) {
				// listed finding F-C05d: the validator was removed while delegations existed; its
				// share record was deleted (and possibly re-created empty) under them
				x.KnownFinding("F-C05d")
				delete(sum, v.Addr+"|"+denom)
				continue
			}
			if !have.Equal(tot) {
				x.Fail("C03", "delegator-shares", "validator %d %s: Σ delegation shares %s != recorded total %s", v.Idx, denom, have, tot)
			}
			delete(sum, v.Addr+"|"+denom)
		}
		for _, denom := range sortedKeys(v.ValShares) {
			if v.ValShares[denom].IsNegative() {
				x.Fail("C03", "negative", "validator %d validator shares of %s negative: %s", v.Idx, denom, v.ValShares[denom])
			}
		}
	}
	for _, k := range sortedKeys(sum) {
		if i := strings.Index(k, "|"); i > 0 && x.Orphaned(x.W.ValIndex(k[:i]), k[i+1:]) {
			x.KnownFinding("F-C05d")
			continue
		}
		if !sum[k].IsZero() {
			x.Fail("C03", "delegator-shares", "delegations %s sum to %s but the validator records no total", k, sum[k])
		}
	}
	// validator-share sums per asset
	for _, denom := range s.AssetOrder {
		a := s.Assets[denom]
		if x.PrecisionCollapsed(denom) {
			x.KnownFinding("F-C04a")
			continue
		}
		if x.RemovedWithStake[denom] {
			// F-C05d: the removed validator's shares stay in the asset's share total
			x.KnownFinding("F-C05d")
			continue
		}
		if a.TotalValidatorShares.IsNegative() {
			// dust-sized negative total: the rounding clamp zeroed the validator's record while the
			// asset total was reduced by the (slightly larger) computed amount — listed finding F-C03
			if b := o.budget[denom]; b != nil && ratAbs(decRat(a.TotalValidatorShares)).Cmp(b) <= 0 {
				x.KnownFinding("F-C03")
				x.Label("c03:dust-negative-total")
			} else {
				x.Fail("C03", "negative", "asset %s share total negative: %s", denom, a.TotalValidatorShares)
			}
		}
		// (a negative staked TOTAL is not a share quantity: it is judged by C01 — custody falls short
		// of what is owed — and classified there)
		tot := math.LegacyZeroDec()
		for _, v := range s.Vals {
			if sh, ok := v.ValShares[denom]; ok {
				tot = tot.Add(sh)
			}
		}
		if a.TotalTokens.IsZero() {
			x.Label("c03:asset-empty")
			if !tot.IsZero() || !a.TotalValidatorShares.IsZero() {
				x.Fail("C03", "reset", "asset %s has zero staked total but validator shares Σ=%s, total=%s remain", denom, tot, a.TotalValidatorShares)
			}
			delete(o.budget, denom) // a reset clears all dust
			continue
		}
		if !tot.Equal(a.TotalValidatorShares) {
			diff := new(big.Rat).Sub(decRat(tot), decRat(a.TotalValidatorShares))
			o.dust(x, denom, tot, a.TotalValidatorShares, diff)
		}
	}
	// validators must not carry shares of denominations that are no asset at all … unless
	// the asset was deleted while empty (then the reset clause above already emptied them).
}

// dust handles Σ validator shares != asset total. Listed known finding F-C03: the
// rounding-tolerant subtraction (ReduceShares) and the dust-clearing path
// (ClearDustDelegation) change a validator's share record without mirroring the exact
// amount in the asset's share total. Such a deviation is bounded by one share plus
// 10^-18 of the share total per share-removing operation; anything larger is a
// different defect and is reported.
func (o *OracleC03) dust(x *Exec, denom string, sum, total math.LegacyDec, diff *big.Rat) {
	abs := new(big.Rat).Abs(diff)
	b := o.budget[denom]
	if b != nil && abs.Cmp(b) <= 0 {
		x.KnownFinding("F-C03")
		x.Label("c03:dust")
		r, _ := new(big.Rat).Quo(abs, b).Float64()
		if r > x.ErrOverTol["c03-dust/budget"] {
			x.ErrOverTol["c03-dust/budget"] = r
		}
		return
	}
	bs := "0"
	if b != nil {
		bs = b.FloatString(6)
	}
	x.Fail("C03", "validator-shares", "asset %s: Σ validator shares %s != asset share total %s (diff %s, dust allowance %s)", denom, sum, total, diff.FloatString(18), bs)
}
