package harness

// keys_test.go — C02/C15 rely on "keys sort chronologically" and on an end-exclusive range
// scan: for all pairs of completion times the byte order of the time-queue keys equals the
// chronological order, keys round-trip, and the scan bound for block time T excludes the
// bucket with completion == T and includes every earlier one. Pure input-level property.

import (
	"bytes"
	"encoding/json"
	"os"
	"testing"
	"time"

	sdk "github.com/cosmos/cosmos-sdk/types"
	"pgregory.net/rapid"

	alliancetypes "github.com/terra-money/alliance/x/alliance/types"
)

func genTime(t *rapid.T, name string) time.Time {
	mode := rapid.IntRange(0, 3).Draw(t, name+"-mode")
	sec := rapid.Int64Range(0, 7_258_118_400).Draw(t, name+"-sec") // 1970..2200
	nsec := rapid.Int64Range(0, 999_999_999).Draw(t, name+"-nsec")
	switch mode {
	case 0:
		nsec = 0
	case 1:
		nsec = 999_999_999
	}
	return time.Unix(sec, nsec).UTC()
}

func TestKeysOrder(t *testing.T) {
	if os.Getenv("VERIF_KEYS") == "" {
		t.Skip("VERIF_KEYS not set")
	}
	n := 0
	boundary := 0
	var fail string
	del := detAddr("del-0")
	del2 := detAddr("del-1")
	t.Run("rapid", func(t *testing.T) {
		rapid.Check(t, func(rt *rapid.T) {
			a := genTime(rt, "a")
			b := genTime(rt, "b")
			if rapid.IntRange(0, 3).Draw(rt, "close") == 0 {
				b = a.Add(time.Duration(rapid.Int64Range(-2, 2).Draw(rt, "delta")))
			}
			n++
			for _, pair := range [][2][]byte{
				{alliancetypes.GetUndelegationQueueKeyByTime(a), alliancetypes.GetUndelegationQueueKeyByTime(b)},
				{alliancetypes.GetRedelegationQueueKey(a), alliancetypes.GetRedelegationQueueKey(b)},
			} {
				got := bytes.Compare(pair[0], pair[1])
				want := a.Compare(b)
				if (got < 0) != (want < 0) || (got > 0) != (want > 0) {
					fail = "time-queue keys do not sort chronologically"
					rt.Fatalf("keys of %s and %s compare %d, times compare %d", a, b, got, want)
				}
			}
			// the end-exclusive scan bound of block time b: a bucket with completion a is inside iff a < b
			bucket := alliancetypes.GetUndelegationQueueKey(a, del)
			bound := alliancetypes.GetUndelegationQueueKeyByTime(b)
			inside := bytes.Compare(bucket, bound) < 0 && bytes.Compare(bucket, alliancetypes.UndelegationQueueKey) >= 0
			if inside != a.Before(b) {
				fail = "maturity scan bound"
				rt.Fatalf("bucket with completion %s is inside=%v the scan of block time %s", a, inside, b)
			}
			if a.Equal(b) {
				boundary++
			}
			// two delegators' buckets of the same completion time are both inside or both outside
			bucket2 := alliancetypes.GetUndelegationQueueKey(a, del2)
			if (bytes.Compare(bucket2, bound) < 0) != inside {
				fail = "maturity scan bound depends on the delegator"
				rt.Fatalf("buckets of two delegators at %s fall on different sides of the bound %s", a, b)
			}
			// round trips
			pt, err := alliancetypes.ParseUndelegationQueueKeyForCompletionTime(bucket)
			if err != nil || !pt.Equal(a) {
				fail = "undelegation queue key round trip"
				rt.Fatalf("parsed %s from the key of %s (%v)", pt, a, err)
			}
			if rt2 := alliancetypes.ParseRedelegationQueueKey(alliancetypes.GetRedelegationQueueKey(a)); !rt2.Equal(a) {
				fail = "redelegation queue key round trip"
				rt.Fatalf("parsed %s from the key of %s", rt2, a)
			}
			val := sdk.ValAddress(detAddr("valop-1"))
			ik := alliancetypes.GetUnbondingIndexKey(val, a, "ibc/ABC", del)
			qk, ct, err := alliancetypes.ParseUnbondingIndexKeyToUndelegationKey(ik)
			if err != nil || !ct.Equal(a) || !bytes.Equal(qk, bucket) {
				fail = "unbonding index key -> queue key"
				rt.Fatalf("index key of %s maps to %x @%s, expected %x", a, qk, ct, bucket)
			}
		})
	})
	if out := os.Getenv("VERIF_OUT"); out != "" {
		b, _ := json.Marshal(map[string]interface{}{"pairs": n, "boundary_pairs": boundary, "fail": fail})
		_ = os.WriteFile(out, b, 0o644)
	}
}
