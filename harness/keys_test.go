package harness

// keys_test.go — C02/C15 rely on "keys sort chronologically" and on an end-exclusive range
// scan: for all pairs of completion times the byte order of the time-queue keys equals the
// chronological order, keys round-trip, and the scan bound for block time T excludes the
// bucket with completion == T and includes every earlier one. Pure input-level property.

import (
	"bytes"
	"encoding/json"
	"os"
	"testing"
	"time"

	sdk "github.com/cosmos/cosmos-sdk/types"
	"pgregory.net/rapid"

	alliancetypes "github.com/terra-money/alliance/x/alliance/types"
)

func genTime(t *rapid.T, name string) time.Time {
	mode := rapid.IntRange(0, 3).Draw(t, name+"-mode")
	sec := rapid.Int64Range(0, 7_258_118_400).Draw(t, name+"-sec") // 1970..2200
	nsec := rapid.Int64Range(0, 999_999_999).Draw(t, name+"-nsec")
	switch mode {
	case 0:
		nsec = 0
	case 1:
		nsec = 999_999_999
	}
	return time.Unix(sec, nsec).UTC()
}

func TestKeysOrder(t *testing.T) {
	if os.Getenv("VERIF_KEYS") == "" {
		t.Skip("VERIF_KEYS not set")
	}
	n := 0
	boundary := 0
	var fail string
	del := detAddr("del-0")
	del2 := detAddr("del-1")
	t.Run("rapid", func(t *testing.T) {
		rapid.Check(t, func(rt *rapid.T) {
			a := genTime(rt, "a")
			b := genTime(rt, "b")
			if rapid.IntRange(0, 3).Draw(rt, "close") == 0 {
				b = a.Add(time.Duration(rapid.Int64Range(-2, 2).Draw(rt, "delta")))
			}
			n++
			for _, pair := range [][2][]byte{
				{alliancetypes.GetUndelegationQueueKeyByTime(a), alliancetypes.GetUndelegationQueueKeyByTime(b)},
				{alliancetypes.GetRedelegationQueueKey(a), alliancetypes.GetRedelegationQueueKey(b)},
			} {
				got := bytes.Compare(pair[0], pair[1])
				want := a.Compare(b)
				if (got < 0) != (want < 0) || (got > 0) != (want > 0) {
					fail = "time-queue keys do not sort chronologically"
					rt.Fatalf("keys of %s and %s compare %d, times compare %d", a, b, got, want)
				}
			}
			// the end-exclusive scan bound of block time b: a bucket with completion a is inside iff a < b
			bucket := alliancetypes.GetUndelegationQueueKey(a, del)
			bound := alliancetypes.GetUndelegationQueueKeyByTime(b)
			inside := bytes.Compare(bucket, bound) < 0 && bytes.Compare(bucket, alliancetypes.UndelegationQueueKey) >= 0
			if inside != a.Before(b) {
				fail = "maturity scan bound"
				rt.Fatalf("bucket with completion %s is inside=%v the scan of block time %s", a, inside, b)
			}
			if a.Equal(b) {
				boundary++
			}
			// two delegators' buckets of the same completion time are both inside or both outside
			bucket2 := alliancetypes.GetUndelegationQueueKey(a, del2)
			if (bytes.Compare(bucket2, bound) < 0) != inside {
				fail = "maturity scan bound depends on the delegator"
				rt.Fatalf("buckets of two delegators at %s fall on different sides of the bound %s", a, b)
			}
			// round trips
			pt, err := alliancetypes.ParseUndelegationQueueKeyForCompletionTime(bucket)
			if err != nil || !pt.Equal(a) {
				fail = "undelegation queue key round trip"
				rt.Fatalf("parsed %s from the key of %s (%v)", pt, a, err)
			}
			if rt2 := alliancetypes.ParseRedelegationQueueKey(alliancetypes.GetRedelegationQueueKey(a)); !rt2.Equal(a) {
				fail = "redelegation queue key round trip"
				rt.Fatalf("parsed %s from the key of %s", rt2, a)
			}
			val := sdk.ValAddress(detAddr("valop-1"))
			ik := alliancetypes.GetUnbondingIndexKey(val, a, "ibc/ABC", del)
			qk, ct, err := alliancetypes.ParseUnbondingIndexKeyToUndelegationKey(ik)
			if err != nil || !ct.Equal(a) || !bytes.Equal(qk, bucket) {
				fail = "unbonding index key -> queue key"
				rt.Fatalf("index key of %s maps to %x @%s, expected %x", a, qk, ct, bucket)
			}
		})
	})
	if out := os.Getenv("VERIF_OUT"); out != "" {
		b, _ := json.Marshal(map[string]interface{}{"pairs": n, "boundary_pairs": boundary, "fail": fail})
		_ = os.WriteFile(out, b, 0o644)
	}
}

// ---- structural properties of the key encoding (C02, C15, C20) ----
//
// For generated tuples of (addresses of several lengths incl. heads/tails of one another,
// denominations incl. heads/tails of one another, times): composite keys parse back to their
// fields; a scan prefix (or the unbonding suffix filter) selects exactly the keys of its own
// tuple — a prefix/suffix built for (a, b, c) matches the key of (a', b', c', …) iff the tuples
// are equal; different tuples give different keys.

func genAddr(t *rapid.T, name string, base []byte) []byte {
	switch rapid.IntRange(0, 6).Draw(t, name+"-mode") {
	case 0:
		if base != nil {
			return append([]byte{}, base...)
		}
	case 1:
		if len(base) > 1 {
			return append([]byte{}, base[1:]...) // proper tail
		}
	case 2:
		if len(base) > 1 {
			return append([]byte{}, base[:len(base)-1]...) // proper head
		}
	case 3:
		if base != nil {
			b := append([]byte{}, base...)
			b[rapid.IntRange(0, len(b)-1).Draw(t, name+"-flip")] ^= 1
			return b
		}
	case 4:
		if base != nil && len(base) < 60 {
			return append(append([]byte{}, base...), rapid.Byte().Draw(t, name+"-ext"))
		}
	}
	n := []int{1, 2, 20, 20, 32}[rapid.IntRange(0, 4).Draw(t, name+"-len")]
	return rapid.SliceOfN(rapid.Byte(), n, n).Draw(t, name+"-bytes")
}

func genDenom(t *rapid.T, name string, base string) string {
	switch rapid.IntRange(0, 6).Draw(t, name+"-mode") {
	case 0:
		if base != "" {
			return base
		}
	case 1:
		if len(base) > 3 && sdk.ValidateDenom(base[1:]) == nil {
			return base[1:] // proper tail
		}
	case 2:
		if len(base) > 3 {
			return base[:len(base)-1] // proper head
		}
	case 3:
		if base != "" && len(base) < 100 {
			return base + rapid.SampledFrom([]string{"a", "0", "x", "/"}).Draw(t, name+"-ext")
		}
	case 4:
		if base != "" && len(base) < 100 {
			return rapid.SampledFrom([]string{"a", "u", "w"}).Draw(t, name+"-pre") + base
		}
	}
	return rapid.SampledFrom(append([]string{"uluna", "luna", "stake", "ibc/27394FB092D2ECCD56123C74F36E4C1F926001CEADA9CA97EA622B25F41E5EB2"}, AssetDenoms...)).Draw(t, name+"-menu")
}

func TestKeysStructure(t *testing.T) {
	if os.Getenv("VERIF_KEYS") == "" {
		t.Skip("VERIF_KEYS not set")
	}
	n, related := 0, 0
	var fail string
	failf := func(rt *rapid.T, what, format string, args ...interface{}) {
		fail = what
		rt.Fatalf(what+": "+format, args...)
	}
	t.Run("rapid", func(t *testing.T) {
		rapid.Check(t, func(rt *rapid.T) {
			n++
			del1 := genAddr(rt, "del1", nil)
			del2 := genAddr(rt, "del2", del1)
			val1 := genAddr(rt, "val1", nil)
			val2 := genAddr(rt, "val2", val1)
			dst1 := genAddr(rt, "dst1", val1)
			dst2 := genAddr(rt, "dst2", dst1)
			dn1 := genDenom(rt, "dn1", "")
			dn2 := genDenom(rt, "dn2", dn1)
			t1 := genTime(rt, "t1")
			t2 := t1
			if rapid.IntRange(0, 2).Draw(rt, "t2-mode") == 0 {
				t2 = genTime(rt, "t2")
			}
			same := func(a, b []byte) bool { return bytes.Equal(a, b) }
			if !same(del1, del2) || !same(val1, val2) || dn1 != dn2 {
				related++
			}
			// 1. unbonding index key: field round trips
			ik1 := alliancetypes.GetUnbondingIndexKey(val1, t1, dn1, del1)
			ik2 := alliancetypes.GetUnbondingIndexKey(val2, t2, dn2, del2)
			if got := alliancetypes.ParseUnbondingIndexKeyForDenom(ik1); got != dn1 {
				failf(rt, "unbonding index key: denom round trip", "%q parsed back as %q", dn1, got)
			}
			if got := alliancetypes.ParseUnbondingIndexKeyForValidator(ik1); !same(got, val1) {
				failf(rt, "unbonding index key: validator round trip", "%x parsed back as %x", val1, got)
			}
			if got, err := alliancetypes.GetTimeFromUndelegationKey(ik1); err != nil || !got.Equal(t1) {
				failf(rt, "unbonding index key: time round trip", "%s parsed back as %s (%v)", t1, got, err)
			}
			qk, ct, err := alliancetypes.ParseUnbondingIndexKeyToUndelegationKey(ik1)
			if err != nil || !ct.Equal(t1) || !same(qk, alliancetypes.GetUndelegationQueueKey(t1, del1)) {
				failf(rt, "unbonding index key -> bucket key", "index key of (%x,%s) maps to %x", del1, t1, qk)
			}
			// 2. the (denom, delegator) suffix filter of the unbonding queries is exact
			match := bytes.HasSuffix(ik1, alliancetypes.GetPartialUnbondingKeySuffix(dn2, del2))
			if match != (dn1 == dn2 && same(del1, del2)) {
				failf(rt, "unbonding suffix filter", "suffix of (%q,%x) matches=%v the index key of (%q,%x)", dn2, del2, match, dn1, del1)
			}
			// 3. the per-validator scan prefix is exact
			if bytes.HasPrefix(ik2, alliancetypes.GetUndelegationsIndexOrderedByValidatorKey(val1)) != same(val1, val2) {
				failf(rt, "unbonding index: per-validator prefix", "prefix of %x vs key of %x", val1, val2)
			}
			if same(ik1, ik2) != (same(val1, val2) && t1.Equal(t2) && dn1 == dn2 && same(del1, del2)) {
				failf(rt, "unbonding index key: injective", "(%x,%s,%q,%x) vs (%x,%s,%q,%x)", val1, t1, dn1, del1, val2, t2, dn2, del2)
			}
			// 4. redelegation record keys: the (delegator, denom, destination) prefix used by the
			// transitive-redelegation check is exact; completion time round trip
			rk2 := alliancetypes.GetRedelegationKey(del2, dn2, dst2, t2)
			p1 := alliancetypes.GetRedelegationsKey(del1, dn1, dst1)
			if bytes.HasPrefix(rk2, p1) != (same(del1, del2) && dn1 == dn2 && same(dst1, dst2)) {
				failf(rt, "redelegation key: (delegator, denom, destination) prefix", "prefix of (%x,%q,%x) vs key of (%x,%q,%x)", del1, dn1, dst1, del2, dn2, dst2)
			}
			if bytes.HasPrefix(rk2, alliancetypes.GetRedelegationsKeyByDelegatorAndDenom(del1, dn1)) != (same(del1, del2) && dn1 == dn2) {
				failf(rt, "redelegation key: (delegator, denom) prefix", "(%x,%q) vs (%x,%q)", del1, dn1, del2, dn2)
			}
			if bytes.HasPrefix(rk2, alliancetypes.GetRedelegationsKeyByDelegator(del1)) != same(del1, del2) {
				failf(rt, "redelegation key: delegator prefix", "%x vs %x", del1, del2)
			}
			if got := alliancetypes.ParseRedelegationKeyForCompletionTime(rk2); !got.Equal(t2) {
				failf(rt, "redelegation key: time round trip", "%s parsed back as %s", t2, got)
			}
			// 5. redelegation index key -> record key, per-source prefix exact
			rik := alliancetypes.GetRedelegationIndexKey(val1, t1, dn1, dst1, del1)
			rk, rct, err := alliancetypes.ParseRedelegationIndexForRedelegationKey(rik)
			if err != nil || !rct.Equal(t1) || !same(rk, alliancetypes.GetRedelegationKey(del1, dn1, dst1, t1)) {
				failf(rt, "redelegation index key -> record key", "index key of (%x,%q,%x,%s) maps to %x", del1, dn1, dst1, t1, rk)
			}
			if bytes.HasPrefix(alliancetypes.GetRedelegationIndexKey(val2, t2, dn2, dst2, del2), alliancetypes.GetRedelegationsIndexOrderedByValidatorKey(val1)) != same(val1, val2) {
				failf(rt, "redelegation index: per-source prefix", "prefix of %x vs key of %x", val1, val2)
			}
			// 6. delegation keys: prefixes by delegator and by (delegator, validator) are exact
			dk2 := alliancetypes.GetDelegationKey(del2, val2, dn2)
			if bytes.HasPrefix(dk2, alliancetypes.GetDelegationsKey(del1)) != same(del1, del2) {
				failf(rt, "delegation key: delegator prefix", "%x vs %x", del1, del2)
			}
			if bytes.HasPrefix(dk2, alliancetypes.GetDelegationsKeyForAllDenoms(del1, val1)) != (same(del1, del2) && same(val1, val2)) {
				failf(rt, "delegation key: (delegator, validator) prefix", "(%x,%x) vs (%x,%x)", del1, val1, del2, val2)
			}
			if same(alliancetypes.GetDelegationKey(del1, val1, dn1), dk2) != (same(del1, del2) && same(val1, val2) && dn1 == dn2) {
				failf(rt, "delegation key: injective", "(%x,%x,%q) vs (%x,%x,%q)", del1, val1, dn1, del2, val2, dn2)
			}
			if same(alliancetypes.GetAssetKey(dn1), alliancetypes.GetAssetKey(dn2)) != (dn1 == dn2) {
				failf(rt, "asset key: injective", "%q vs %q", dn1, dn2)
			}
			// 7. reward-weight-change snapshot keys: round trip; within (denom, validator) the byte
			// order is the numeric order of the heights
			h1 := rapid.Uint64().Draw(rt, "h1")
			h2 := rapid.Uint64().Draw(rt, "h2")
			sk1 := alliancetypes.GetRewardWeightChangeSnapshotKey(dn1, val1, h1)
			pd, pv, ph := alliancetypes.ParseRewardWeightChangeSnapshotKey(sk1)
			if pd != dn1 || !same(pv, val1) || ph != h1 {
				failf(rt, "snapshot key: round trip", "(%q,%x,%d) parsed back as (%q,%x,%d)", dn1, val1, h1, pd, pv, ph)
			}
			sk2 := alliancetypes.GetRewardWeightChangeSnapshotKey(dn1, val1, h2)
			if (bytes.Compare(sk1, sk2) < 0) != (h1 < h2) {
				failf(rt, "snapshot key: height order", "heights %d, %d", h1, h2)
			}
			// 8. bucket keys: the delegator part is exact within a completion time
			if same(alliancetypes.GetUndelegationQueueKey(t1, del1), alliancetypes.GetUndelegationQueueKey(t2, del2)) != (t1.Equal(t2) && same(del1, del2)) {
				failf(rt, "unbonding bucket key: injective", "(%s,%x) vs (%s,%x)", t1, del1, t2, del2)
			}
		})
	})
	if out := os.Getenv("VERIF_OUT2"); out != "" {
		b, _ := json.Marshal(map[string]interface{}{"tuples": n, "tuples_with_related_fields": related, "fail": fail})
		_ = os.WriteFile(out, b, 0o644)
	}
}
